"""DOM projection: nested tuples read through public accessors only.  Used for before/after
snapshots (C11), restart equality (C03, C08, C09, C15, C17) and abstract-state hashing."""


def _safe(f, *a):
    try:
        return f(*a)
    except Exception as e:  # an accessor that raises is part of the observation
        return ("EXC", type(e).__name__)


def p_value(v):
    """one component of a PropertyValue"""
    return (getattr(v, "type", None), _safe(lambda: v.cssText))


def p_property(p):
    return (
        p.literalname,
        p.name,
        _safe(lambda: p.value),
        p.priority,
        _safe(lambda: tuple(p_value(v) for v in p.propertyValue)),
    )


def p_style(style, comments=True):
    if style is None:
        return None
    out = []
    for item in _safe(lambda: list(style.seq)) if comments else []:
        if isinstance(item, tuple):
            return item
        v = item.value
        tn = type(v).__name__
        if tn == "Property":
            out.append(("P",) + p_property(v))
        elif tn == "CSSComment":
            out.append(("C", v.cssText))
        else:
            out.append(("?", tn, _safe(lambda: getattr(v, "cssText", repr(v)))))
    if not comments:
        out = [("P",) + p_property(p) for p in style.getProperties(all=True)]
    return tuple(out)


def p_selector(sel):
    def it(i):
        v = i.value
        if isinstance(v, tuple):
            v = tuple(v)
        elif not isinstance(v, (str, int, float, type(None))):
            v = (type(v).__name__, _safe(lambda: v.cssText))
        return (i.type, v)

    return (_safe(lambda: sel.selectorText), _safe(lambda: tuple(sel.specificity)), _safe(lambda: tuple(it(i) for i in sel.seq)))


def p_selectorlist(sl):
    return _safe(lambda: tuple(p_selector(s) for s in sl))


def p_mediaquery(q):
    return (_safe(lambda: q.mediaText), _safe(lambda: q.mediaType))


def p_medialist(ml):
    if ml is None:
        return None
    return (_safe(lambda: ml.mediaText), _safe(lambda: tuple(p_mediaquery(i.value) for i in ml)))


def p_rule(r, depth=0):
    t = _safe(lambda: r.typeString)
    if t == "STYLE_RULE":
        return (t, p_selectorlist(r.selectorList), p_style(r.style))
    if t == "MEDIA_RULE":
        return (t, p_medialist(r.media), _safe(lambda: r.name), tuple(p_rule(x, depth + 1) for x in r.cssRules))
    if t == "IMPORT_RULE":
        sub = r.styleSheet
        return (t, r.href, p_medialist(r.media), r.name, _safe(lambda: r.hrefFound), None if sub is None or depth > 4 else p_sheet(sub, depth + 1))
    if t == "NAMESPACE_RULE":
        return (t, r.prefix, r.namespaceURI)
    if t == "CHARSET_RULE":
        return (t, r.encoding)
    if t == "PAGE_RULE":
        return (t, _safe(lambda: r.selectorText), p_style(r.style), tuple(p_rule(x, depth + 1) for x in r.cssRules))
    if t == "MARGIN_RULE":
        return (t, _safe(lambda: r.margin), p_style(r.style))
    if t == "FONT_FACE_RULE":
        return (t, p_style(r.style))
    if t == "COMMENT":
        return (t, r.cssText)
    if t == "VARIABLES_RULE":
        v = r.variables
        return (t, _safe(lambda: tuple((k, v.getVariableValue(k)) for k in v.keys())), _safe(lambda: v.cssText))
    return (t, _safe(lambda: r.cssText))


def p_sheet(sheet, depth=0):
    return (
        "SHEET",
        _safe(lambda: sheet.encoding),
        _safe(lambda: tuple(sorted(sheet.namespaces.items()))),
        tuple(p_rule(r, depth) for r in sheet.cssRules),
    )


def kinds(sheet_or_rule):
    return tuple(r.typeString for r in sheet_or_rule.cssRules)
