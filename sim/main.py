"""CLI of the deterministic-simulation checks.

  check <ID> [--tier quick|thorough] [--seed N] [--runs N] [--jobs J] [--triage]
  check <ID> --replay FILE
  check digest <ID> --tier T --seed S --runs a,b,c      (determinism self-test helper)
  check selftest [--fast]
  check validate-evidence

Exit 0: property held on everything explored (KNOWN-FINDING lines may have been printed).
Exit 1: at least one `VIOLATION property=<id> replay=<path>` line.
Exit 2: harness error (never a pass, never a VIOLATION).
"""
import argparse
import collections
import glob
import json
import os
import subprocess
import sys
import time

HERE = os.path.dirname(os.path.abspath(__file__))
sys.path.insert(0, os.path.dirname(HERE))

from sim.kit import env, evidence, findings, runner, shrink  # noqa: E402

CLAIMED = ["C01", "C03", "C07", "C08", "C09", "C10", "C11", "C12", "C14", "C15", "C16", "C17", "C19"]


def _seed():
    try:
        return int(os.environ.get("VERIF_SEED", "0"))
    except ValueError:
        return 0


def _fresh(args, hashseed="4242", timeout=3600):
    e = dict(os.environ)
    e["PYTHONHASHSEED"] = hashseed
    e["PYTHONDONTWRITEBYTECODE"] = "1"
    return subprocess.run([sys.executable, os.path.join(HERE, "main.py")] + args, env=e, capture_output=True, text=True, timeout=timeout)


def cmd_digest(a):
    env.import_tree()
    prop = runner.load_prop(a.id)
    out = {}
    for r in [int(x) for x in a.runs.split(",") if x]:
        res = runner.run_isolated(prop, a.seed, r, a.tier)
        out[r] = res.get("digest") or ("ERROR:" + res.get("error", "?")[-300:])
    print(json.dumps(out))
    return 0


def replay_file(path, quiet=False):
    with open(path) as f:
        rp = json.load(f)
    env.import_tree()
    prop = runner.load_prop(rp["property"])
    res = runner.run_isolated(prop, rp["seed"], rp["run"], rp.get("tier", "quick"), cfg=rp["cfg"], ops=rp["ops"])
    if "error" in res:
        if rp.get("expect", {}).get("inv") == "hang" and res.get("hang"):
            return 1, {"inv": "hang", "sig": "watchdog", "detail": res["error"]}
        raise env.HarnessError("replay failed to execute: " + res["error"])
    v = res["violation"]
    if v and (not rp.get("expect") or (v["inv"] == rp["expect"]["inv"] and v["sig"] == rp["expect"]["sig"])):
        return 1, v
    return 0, v


def cmd_replay(a):
    code, v = replay_file(a.replay)
    with open(a.replay) as f:
        pid = json.load(f)["property"]
    if code:
        print(f"violation reproduced: {v['inv']} [{v['sig']}] {v['detail'][:600]}")
        print(f"VIOLATION property={pid} replay={os.path.abspath(a.replay)}")
    else:
        print("not reproduced" + (f" (other violation: {v['inv']} [{v['sig']}])" if v else ""))
    return code


def write_replay(prop, seed, tier, run, cfg, ops, viol, tag=""):
    d = os.path.join(env.VERIF_DIR, "evidence", "replays")
    os.makedirs(d, exist_ok=True)
    path = os.path.join(d, f"{prop.ID}-s{seed}-r{run}{tag}.json")
    with open(path, "w") as f:
        json.dump(
            {
                "property": prop.ID,
                "seed": seed,
                "run": run,
                "tier": tier,
                "cfg": cfg,
                "ops": ops,
                "expect": {"inv": viol["inv"], "sig": viol["sig"]},
                "detail": viol["detail"],
                "tree": env.tree_fingerprint(),
            },
            f,
            indent=1,
            sort_keys=True,
            default=repr,
        )
        f.write("\n")
    return path


def cmd_check(a):
    t0 = time.time()
    seed = a.seed if a.seed is not None else _seed()
    tier = a.tier or os.environ.get("VERIF_TIER") or "quick"
    if tier not in ("quick", "thorough"):
        tier = "quick"
    env.import_tree()
    prop = runner.load_prop(a.id)
    pid = prop.ID
    print(f"property={pid} tier={tier} VERIF_SEED={seed} repo={env.REPO} tree={env.tree_fingerprint()}", flush=True)
    known = findings.load(pid)
    lines, exit_code = [], 0
    known_hit = collections.Counter()

    # 1. regression corpus (replays of repaired defects; a fixed entry suppresses nothing)
    corpus = sorted(glob.glob(os.path.join(env.VERIF_DIR, "corpus", pid, "*.json")))
    corpus_fail = 0
    for path in corpus:
        code, v = replay_file(path)
        if code:
            corpus_fail += 1
            exit_code = 1
            print(f"corpus replay fails again: {v['inv']} [{v['sig']}] {v['detail'][:300]}")
            print(f"VIOLATION property={pid} replay={path}", flush=True)

    # 2. seeded exploration
    n = a.runs if a.runs is not None else prop.RUNS[tier]
    agg = runner.run_batch(prop, seed, tier, range(n), jobs=a.jobs)

    # 3. deterministic sub-sweeps a property may add (finite, enumerated, in-process)
    sweep_info = {}
    if hasattr(prop, "sweeps"):
        sw = prop.sweeps(tier, seed)
        sweep_info = sw.get("info", {})
        agg["stats"].update(sw.get("stats", {}))
        for v in sw.get("violations", []):
            agg["violations"].append(v)

    # 4. harness errors
    hang_is_violation = getattr(prop, "HANG_IS_VIOLATION", False)
    hard_errors = [e for e in agg["errors"] if not (hang_is_violation and e.get("hang"))]
    if hard_errors:
        for e in hard_errors[:5]:
            print(f"HARNESS ERROR run={e['run']}: {e['error']}", file=sys.stderr)
        print(f"harness errors: {len(hard_errors)}", file=sys.stderr)
        return 2
    for e in agg["errors"]:
        rs = runner._rng.Streams(seed, pid, e["run"])
        cfg = prop.config(rs, e["run"], tier)
        ops = prop.regen_ops(cfg, rs) if hasattr(prop, "regen_ops") else []
        agg["violations"].append({"run": e["run"], "cfg": cfg, "ops": ops, "violation": {"inv": "hang", "sig": "watchdog", "detail": e["error"], "step": -1}})

    # 5. determinism self-check on a sample of runs, in a fresh interpreter under another hash seed
    det_checked = 0
    if not a.no_selfcheck and agg["run_digest"]:
        ids = sorted(agg["run_digest"])
        step = max(1, len(ids) // 40)
        sample = ids[::step][:40]
        p = _fresh(["digest", pid, "--tier", tier, "--seed", str(seed), "--runs", ",".join(map(str, sample))])
        if p.returncode != 0:
            print("HARNESS ERROR: determinism helper failed\n" + p.stderr[-2000:], file=sys.stderr)
            return 2
        other = {int(k): v for k, v in json.loads(p.stdout.strip().splitlines()[-1]).items()}
        bad = [r for r in sample if other.get(r) != agg["run_digest"][r]]
        det_checked = len(sample)
        if bad and (exit_code == 1 or any(not findings.match(known, v["violation"]) for v in agg["violations"])):
            # the tree under test already violates the property (seeded runs or corpus replays): runs that differ
            # between processes are then a symptom of the breakage (state kept where none belongs), not a reason
            # to withhold the violations, each of which is reproduced from its replay file below
            print(f"warning: runs {bad[:10]} differ in a fresh interpreter; violations are reported from their replay files", file=sys.stderr)
        elif bad:
            print(f"HARNESS ERROR: non-deterministic runs (digest differs in fresh interpreter / other PYTHONHASHSEED): {bad[:10]}", file=sys.stderr)
            return 2

    # 6. violations: cluster, match known findings, shrink + verify the rest
    clusters = collections.OrderedDict()
    for v in agg["violations"]:
        clusters.setdefault((v["violation"]["inv"], v["violation"]["sig"]), []).append(v)
    reported = 0
    cluster_rows = []
    for (inv, sig), vs in clusters.items():
        e = findings.match(known, vs[0]["violation"])
        cluster_rows.append({"inv": inv, "sig": sig, "runs": len(vs), "known": e["id"] if e else None, "example": vs[0]["violation"]["detail"][:300]})
        if e:
            known_hit[e["id"]] += len(vs)
            continue
        if reported >= 20:
            continue
        rep = min(vs, key=lambda v: len(v["ops"]))
        ops = rep["ops"]
        if not a.triage and rep["violation"].get("inv") != "hang" and not rep.get("no_shrink"):
            ops, used = shrink.shrink(prop, seed, rep["run"], tier, rep["cfg"], ops, inv, sig)
        path = write_replay(prop, seed, tier, rep["run"], rep["cfg"], ops, rep["violation"], tag=f"-{reported}")
        if not a.triage:
            p = _fresh([pid, "--replay", path], hashseed="777")
            if p.returncode != 1:
                print(f"HARNESS ERROR: violation {inv} [{sig}] does not reproduce from {path} in a fresh interpreter:\n{p.stdout[-800:]}\n{p.stderr[-1500:]}", file=sys.stderr)
                return 2
        reported += 1
        exit_code = 1
        print(f"violation {inv} [{sig}] in {len(vs)} run(s), e.g. run {rep['run']} ({len(ops)} ops after shrinking): {rep['violation']['detail'][:500]}")
        print(f"VIOLATION property={pid} replay={path}", flush=True)
    for e in known:
        if known_hit[e["id"]]:
            print(f"KNOWN-FINDING: property={pid} {e['id']}: {e['what']} (hit in {known_hit[e['id']]} runs)")
    if a.triage:
        for r in sorted(cluster_rows, key=lambda r: -r["runs"]):
            print(json.dumps(r))

    # 7. evidence
    wall = time.time() - t0
    st = agg["stats"]
    group = lambda pre: {k[len(pre):]: v for k, v in sorted(st.items()) if k.startswith(pre)}  # noqa: E731
    probes = group("probe:")
    for name in getattr(prop, "PROBES", []):
        probes.setdefault(name, 0)
    zero = [k for k, v in probes.items() if v == 0]
    if zero and tier == "thorough":
        print("warning: reach probes at zero: " + ", ".join(zero))
    evals = agg["runs"] + int(sweep_info.get("evaluations", 0))
    doc = {
        "property_id": pid,
        "tier": tier,
        "seed": seed,
        "level": "exploration",
        "wall_s": round(wall, 2),
        "violations": reported,
        "coverage": {
            "evaluations": evals,
            "distinct_nontrivial": len(agg["digests_nt"]) + int(sweep_info.get("distinct_nontrivial", 0)),
            "rule": getattr(prop, "RULE", "")
            + " | distinct = distinct history digests (sha256 over the (op, outcome) sequence) among runs that are non-trivial: >=1 operation accepted by the library and >=1 non-vacuous oracle comparison.",
            "samples": agg["samples"][:3] or [{"note": "no non-trivial run"}],
            "simulated_runs": agg["runs"],
            "simulated_steps": agg["steps"],
            "simulated_ticks": agg["ticks"],
            "runs_per_hour": int(agg["runs"] / wall * 3600) if wall > 0 else 0,
            "seeds": [seed],
            "distinct_abstract_states": len(agg["states"]),
            "ops_by_kind_and_outcome": group("op:"),
            "faults_fired": group("fault:"),
            "reach_probes": probes,
            "reach_probes_at_zero": zero,
            "oracle_comparisons": st.get("oracle", 0),
            "unexpected_exceptions": group("unexpected:"),
            "other_counters": {k: v for k, v in sorted(st.items()) if ":" in k and k.split(":")[0] not in ("op", "fault", "probe", "unexpected")},
            "sweeps": sweep_info,
            "determinism_selfcheck_runs": det_checked,
            "corpus_replays": len(corpus),
            "corpus_replays_failing": corpus_fail,
            "known_findings_hit": dict(known_hit),
            "violation_clusters": cluster_rows[:40],
            "real_code": getattr(prop, "REAL", []),
            "stubs": getattr(prop, "STUBS", []),
            "tree": env.tree_fingerprint(),
            "exhaustive": False,
        },
        "assumptions": getattr(prop, "ASSUMPTIONS", []),
    }
    if os.environ.get("VERIF_NO_EVIDENCE") or env.REPO != "/repo":
        # evidence is only ever written for the tree under /repo (mutant / old-tree runs leave it alone)
        path = "(not written: VERIF_REPO is not /repo)"
        evidence.validate(doc)
    else:
        path = evidence.write(pid, doc)
    print(
        f"runs={agg['runs']} steps={agg['steps']} distinct_nontrivial={doc['coverage']['distinct_nontrivial']} states={len(agg['states'])} "
        f"oracle={st.get('oracle', 0)} faults={sum(group('fault:').values())} det_checked={det_checked} wall={wall:.1f}s evidence={path}",
        flush=True,
    )
    return exit_code


def cmd_selftest(a):
    """Determinism across fresh interpreters / hash seeds / worker counts, for every claimed property."""
    env.import_tree()
    rc = 0
    n = 30 if a.fast else 200
    for pid in CLAIMED:
        try:
            prop = runner.load_prop(pid)
        except ModuleNotFoundError:
            continue
        runs = list(range(n))
        a1 = runner.run_batch(prop, 0, "quick", runs, jobs=16)
        a2 = runner.run_batch(prop, 0, "quick", runs, jobs=3)
        p = _fresh(["digest", pid, "--tier", "quick", "--seed", "0", "--runs", ",".join(str(r) for r in runs if r < 64 or r % 53 == 0)], hashseed="99")
        if p.returncode != 0:
            print(f"{pid}: digest helper failed: {p.stderr[-500:]}")
            rc = 2
            continue
        a3 = {int(k): v for k, v in json.loads(p.stdout.strip().splitlines()[-1]).items()}
        # (batches keep the digests of runs < 64 and of every 53rd run)
        kept = [r for r in runs if r in a1["run_digest"]]
        bad = [r for r in kept if not (a1["run_digest"].get(r) == a2["run_digest"].get(r) == a3.get(r))]
        print(f"{pid}: {len(kept)} of {n} runs x (16 workers, 3 workers, fresh interpreter PYTHONHASHSEED=99): {'identical' if not bad else 'MISMATCH ' + str(bad[:10])}")
        if bad or a1["errors"]:
            rc = 2
    # known findings / corpus files parse
    findings.load("C00")
    for f in glob.glob(os.path.join(env.VERIF_DIR, "corpus", "*", "*.json")):
        json.load(open(f))
    return rc


def cmd_validate(a):
    code = (
        "import json,glob,jsonschema,sys\n"
        "s=json.load(open('/root/.vp/EVIDENCE.schema.json'))\n"
        "bad=0\n"
        f"for f in sorted(glob.glob('{env.VERIF_DIR}/evidence/*.json')):\n"
        "    try: jsonschema.validate(json.load(open(f)),s); print('ok',f)\n"
        "    except Exception as e: bad=1; print('INVALID',f,str(e)[:300])\n"
        f"m=json.load(open('{env.VERIF_DIR}/MANIFEST.json')); jsonschema.validate(m,json.load(open('/root/.vp/MANIFEST.schema.json'))); print('ok MANIFEST')\n"
        "sys.exit(bad)\n"
    )
    return subprocess.run(["python3-vt", "-c", code]).returncode


def main():
    argv = sys.argv[1:]
    if argv and argv[0] == "digest":
        ap = argparse.ArgumentParser()
        ap.add_argument("id")
        ap.add_argument("--tier", default="quick")
        ap.add_argument("--seed", type=int, default=0)
        ap.add_argument("--runs", default="")
        return cmd_digest(ap.parse_args(argv[1:]))
    if argv and argv[0] == "selftest":
        ap = argparse.ArgumentParser()
        ap.add_argument("--fast", action="store_true")
        return cmd_selftest(ap.parse_args(argv[1:]))
    if argv and argv[0] == "validate-evidence":
        return cmd_validate(None)
    ap = argparse.ArgumentParser()
    ap.add_argument("id")
    ap.add_argument("--tier", default=None)
    ap.add_argument("--seed", type=int, default=None)
    ap.add_argument("--runs", type=int, default=None)
    ap.add_argument("--jobs", type=int, default=None)
    ap.add_argument("--replay", default=None)
    ap.add_argument("--triage", action="store_true")
    ap.add_argument("--no-selfcheck", action="store_true")
    a = ap.parse_args(argv)
    if a.replay:
        return cmd_replay(a)
    return cmd_check(a)


if __name__ == "__main__":
    try:
        sys.exit(main())
    except env.HarnessError as e:
        print(f"HARNESS ERROR: {e}", file=sys.stderr)
        sys.exit(2)
