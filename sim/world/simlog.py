"""Recording log sink installed with cssutils.log.setLog: (level, ) per call; message texts are kept
for diagnostics only and never enter an oracle."""
import logging


class SimLog:
    LEVELS = {"debug": 10, "info": 20, "warning": 30, "error": 40, "critical": 50, "fatal": 50}

    def __init__(self):
        self.records = []
        self.level = logging.DEBUG
        self.last = None

    def _rec(self, lvl, msg):
        self.records.append(lvl)
        self.last = msg

    def debug(self, msg, *a, **k):
        self._rec("D", msg)

    def info(self, msg, *a, **k):
        self._rec("I", msg)

    def warning(self, msg, *a, **k):
        self._rec("W", msg)

    warn = warning

    def error(self, msg, *a, **k):
        self._rec("E", msg)

    def critical(self, msg, *a, **k):
        self._rec("C", msg)

    fatal = critical

    def setLevel(self, level):
        self.level = level

    def getEffectiveLevel(self):
        return self.level

    def addHandler(self, h):
        pass

    def removeHandler(self, h):
        pass

    def mark(self):
        return len(self.records)

    def since(self, mark):
        return "".join(self.records[mark:])

    def count(self, mark, lvl="E"):
        return self.records[mark:].count(lvl)


def install():
    import cssutils

    log = SimLog()
    cssutils.log.setLog(log)
    return log
