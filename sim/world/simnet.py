"""SimNet: the only transport the library sees.  A dict url -> document plan, served through
  * SimNet.fetch          (a user fetcher: url -> (http_charset, bytes-or-text) / None), or
  * SimNet.urlopen        (replacement for urllib.request.urlopen, used by the default fetcher)
Every fetch is appended to the fetch log (url, fault fired).  Faults are attributes of the plan and
are counted when they fire.

document plan (JSON-able):
  {"text": str, "enc": codec name or None (None -> delivered as str), "http": charset or None,
   "fault": None | NOT_FOUND | EMPTY | OSERROR | VALUEERROR | OTHER_EXC | REENTRANT | HTTP_ERROR | URL_ERROR,
   "cut": int or None (TORN: content cut at that unit), "raw_hex": hex string (verbatim bytes instead of text/enc)}
"""
import email.message
import http.client
import io
import re
import urllib.error
import urllib.request


class FakeResponse(io.BytesIO):
    def __init__(self, data, charset, url, mime="text/css"):
        super().__init__(data)
        self._msg = email.message.Message()
        self._msg["Content-Type"] = mime + (f"; charset={charset}" if charset else "")
        self.url = url

    def info(self):
        return self._msg

    def geturl(self):
        return self.url


class SimNet:
    def __init__(self, docs, stats=None, reenter=None):
        self.docs = docs
        self.log = []
        self.stats = stats if stats is not None else {}
        self.reenter = reenter  # callable run by a REENTRANT fetcher before it returns

    def _count(self, k):
        self.stats["fault:" + k] = self.stats.get("fault:" + k, 0) + 1

    def payload(self, d):
        if d.get("raw_hex") is not None:
            data = bytes.fromhex(d["raw_hex"])
        elif d.get("enc"):
            data = d["text"].encode(d["enc"], "replace")
        else:
            data = d["text"]
        if d.get("cut") is not None:
            data = data[: d["cut"]]
            self._count("TORN")
        return data

    def fetch(self, url):
        d = self.docs.get(url)
        fault = (d or {}).get("fault") if d is not None else "NOT_FOUND"
        self.log.append((url, fault))
        if d is None or fault == "NOT_FOUND":
            self._count("NOT_FOUND")
            return None
        if fault == "EMPTY":
            self._count("EMPTY")
            return (None, None)
        if fault == "OSERROR":
            self._count("OSERROR")
            raise OSError("simnet: injected I/O error for " + url)
        if fault == "VALUEERROR":
            self._count("VALUEERROR")
            raise ValueError("simnet: injected value error for " + url)
        if fault == "OTHER_EXC":
            self._count("OTHER_EXC")
            raise RuntimeError("simnet: user fetcher failed for " + url)
        if fault == "REENTRANT":
            self._count("REENTRANT")
            if self.reenter:
                self.reenter()
        if d.get("http") and d.get("lying"):
            self._count("LYING_CHARSET")
        if d.get("count_text_fault") and not d.get("enc") and d.get("raw_hex") is None:
            self._count("TEXT_NOT_BYTES")
        return (d.get("http"), self.payload(d))

    def urlopen(self, request, *a, **k):
        url = request.full_url if isinstance(request, urllib.request.Request) else request
        if re.search(r"[\x00-\x20\x7f]", url):
            # what the stdlib HTTP client does with such a URL before anything is sent
            self._count("INVALID_URL")
            raise http.client.InvalidURL(f"URL can't contain control characters. {url!r}")
        d = self.docs.get(url)
        fault = (d or {}).get("fault") if d is not None else "NOT_FOUND"
        self.log.append((url, fault))
        if d is None or fault in ("NOT_FOUND", "HTTP_ERROR"):
            self._count("HTTP_ERROR")
            raise urllib.error.HTTPError(url, 404, "Not Found", email.message.Message(), None)
        if fault == "URL_ERROR":
            self._count("URL_ERROR")
            raise urllib.error.URLError("simnet: unreachable")
        if fault == "OSERROR":
            self._count("OSERROR")
            raise OSError("simnet: injected I/O error")
        if fault == "VALUEERROR":
            self._count("VALUEERROR")
            raise ValueError("simnet: unknown url type")
        data = self.payload(d)
        if isinstance(data, str):
            data = data.encode(d.get("http") or "utf-8", "replace")
        return FakeResponse(data, d.get("http"), url, d.get("mime", "text/css"))

    def install_urlopen(self):
        """the default fetcher resolves urllib.request.urlopen at call time"""
        self._orig = urllib.request.urlopen
        urllib.request.urlopen = self.urlopen

    def uninstall_urlopen(self):
        urllib.request.urlopen = self._orig
