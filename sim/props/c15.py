"""C15 - namespace declarations and namespaced selectors stay consistent.

World: one or two sheets with @namespace rules (default and prefixed, duplicate URIs) and style rules
(top level and inside @media) whose selectors use p|e, *|e, |e, e, *, [p|a], [a]; the harness keeps, for
every selector it created, the (namespace URI, local name) pairs it meant.  Workload: seeded histories
of namespace edits, rule moves between sheets, selector edits and restarts.
"""
import collections

from sim.kit import lib
from sim.kit.runner import Viol
from sim.world import simlog

ID = "C15"
FORK = True
RUNS = {"quick": 10_000, "thorough": 200_000}
RULE = "run = 1-2 sheets + seeded history of namespace operations (mapping set / delete, @namespace rule insert / delete, namespaced style rules added, selectors replaced, rules moved between sheets, sheet text replaced, restart); invariants V1-V7 after every step"
REAL = ["cssutils/util.py (_Namespaces, _SimpleNamespaces)", "cssutils/css/cssstylesheet.py (_cleanNamespaces, _getUsedURIs, insertRule, deleteRule)", "cssutils/css/cssnamespacerule.py", "cssutils/css/selector.py, selectorlist.py, cssstylerule.py", "cssutils/serialize.py (do_css_Selector, do_CSSNamespaceRule)"]
STUBS = ["SimLog log sink"]
ASSUMPTIONS = [
    "when two @namespace rules bind one prefix to different URIs the statement does not say which wins: the mapping oracle V1 is silent for such rule lists",
    "unprefixed type selectors (V6): after a change of the default namespace a restart may resolve them to the default in force, to the default that was in force when they were written (meaning kept), or to 'any namespace'; resolving to the empty namespace or to another URI is a violation",
    "outcomes the statement does not fix (re-binding a prefix to a URI that already has one) are observed: rejected => unchanged, accepted => invariants hold",
    "a sheet parsed from a text is compared with what the text's @namespace rules mean (last declaration of a URI wins); only for texts whose prefixes are all distinct (then: the last declaration of a URI wins); a prefix declared twice inside one text is input handling the statement does not fix (the parser ignores the repetition; the statement does not say)",
]
PROBES = ["rebind_prefix", "delete_used_namespace_rejected", "undeclared_prefix_rejected", "rule_moved_between_sheets", "default_namespace_changed", "restart", "uri_declared_again_under_other_prefix", "selector_in_media", "empty_bodied_rule", "rule_detached_and_kept", "detached_rule_attached_again", "two_superseded_declarations_in_one_text", "other_uri_rejected"]

ANY = -1
PREFIXES = ["p", "q", "r", ""]
URIS = ["u0", "u1", "u2", "u3", "*"]  # ("*" is an ordinary URI; "any namespace" is the prefix *)
LOCALS = ["a", "b", "c", "d"]


def config(rs, run, tier):
    r = rs("config")
    c = rs("content")
    sheets = []
    for _ in range(r.choice([1, 1, 2])):
        ns = []
        for _ in range(c.choice([0, 1, 2, 3, 3, 4, 5])):
            p = c.choice(PREFIXES)
            u = c.choice(URIS)
            ns.append(f'@namespace {p} "{u}";' if p else f'@namespace "{u}";')
        sheets.append(" ".join(ns) + " x { left: 0 }")
    return {"n_ops": r.choice([1, 2, 3, 4, 6, 8, 12, 25, 60]), "raise": r.random() < 0.6, "sheets": sheets}


def ns_rules(sheet):
    return [(r.prefix, r.namespaceURI) for r in sheet.cssRules if r.typeString == "NAMESPACE_RULE"]


def ref_mapping(rules):
    """effective mapping from the @namespace rules in list order: last declaration of a URI wins, one prefix
    per URI.  None when one prefix is bound to two different URIs (statement silent)."""
    by_uri = {}
    for p, u in rules:
        by_uri[u] = p
    m = {}
    for u, p in by_uri.items():
        if p in m and m[p] != u:
            return None
        m[p] = u
    return m


def style_rules(sheet):
    out = []
    for r in sheet.cssRules:
        if r.typeString == "STYLE_RULE":
            out.append(r)
        elif r.typeString == "MEDIA_RULE":
            out.extend(x for x in r.cssRules if x.typeString == "STYLE_RULE")
    return out


def pairs_of(sel):
    """(kind, uri, local) for every namespaced item of a selector"""
    out = []
    for i in sel.seq:
        if isinstance(i.value, tuple):
            out.append((i.type, i.value[0], i.value[1]))
    return out


class World:
    def __init__(self, cfg):
        import cssutils

        self.cu = cu = cssutils
        self.cfg = cfg
        self.stats = collections.Counter()
        self.log = simlog.install()
        cu.log.raiseExceptions = False
        self.sheets = []
        for t in cfg["sheets"]:
            k, sh = lib.call(cu.parseString, t)
            if k != "ok":
                raise Viol("V1_mapping_equals_rules", f"init:parse-raises:{lib.ename(sh)}", f"parsing {t!r} (log mode) raised {sh!r}")
            self.sheets.append(sh)
        cu.log.raiseExceptions = cfg["raise"]
        self.soft = []
        for si, (s_, t_) in enumerate(zip(self.sheets, cfg["sheets"])):
            self.source_check(s_, t_, "init")
        self.created_map = {}  # id(rule) -> namespace mapping under which its selectors were written
        self.detached = []  # (rule object, meant, namespace mapping of its sheet when it was taken out)
        self.tracked = []  # (rule object, [[(kind, uri|ANY|''|'DEFAULT', local, default_at_creation)] per selector])
        self.check("init")

    def source_check(self, sheet, text, where):
        """a sheet just parsed from `text`: its mapping is what the @namespace rules of the text mean"""
        import re

        pairs = [(p, u) for p, u in re.findall(r'@namespace\s*(\w*)\s*"([^"]*)"\s*;', text)]
        if len({p_ for p_, _ in pairs}) < len(pairs):
            # a prefix declared more than once inside one text (re-bound or repeated): what the parser makes of
            # that is input handling the statement does not fix - silent.  With distinct prefixes the only
            # rule that applies is "the last declaration of a URI wins, one prefix per URI".
            return
        ref = {u_: p_ for p_, u_ in pairs}
        ref = {p_: u_ for u_, p_ in ref.items()}
        self.stats["oracle"] += 1
        k, got = lib.call(lambda: dict(sheet.namespaces.items()))
        if k != "ok" or got != ref:
            raise Viol("V1_mapping_equals_rules", f"{where}:source-mapping", f"{where}: a sheet parsed from {text!r} has namespaces {got!r}; its @namespace rules {pairs} mean {ref}")
        if len(pairs) - len(ref) >= 2:
            self.stats["probe:two_superseded_declarations_in_one_text"] += 1

    # ------------------------------------------------------------------ invariants
    def check(self, where):
        self.stats["oracle"] += 1
        for si, s in enumerate(self.sheets):
            rules = ns_rules(s)
            ref = ref_mapping(rules)
            k, got = lib.call(lambda: dict(s.namespaces.items()))
            if k != "ok":
                raise Viol("V1_mapping_equals_rules", f"{where}:items-raises:{lib.ename(got)}", f"{got!r}")
            # (two rules for one URI at once is a state the repaired tree never holds - the superseded rule is
            # taken out -; ref_mapping still covers it for trees where it is reachable)
            if ref is not None and got != ref:
                raise Viol("V1_mapping_equals_rules", f"{where}:mapping", f"after {where}: sheet {si} namespaces {got} but its @namespace rules {rules} mean {ref}")
            # serialised @namespace rules stay well-formed
            for r in s.cssRules:
                if r.typeString == "NAMESPACE_RULE":
                    k, text = lib.call(lambda: r.cssText)
                    k2, r2 = lib.call(self.cu.css.CSSNamespaceRule, None, None, text) if k == "ok" else ("exc", None)
                    if k != "ok" or k2 != "ok" or (r2.prefix, r2.namespaceURI) != (r.prefix, r.namespaceURI):
                        raise Viol("namespace_rule_wellformed", f"{where}:nsrule-text", f"after {where}: @namespace rule ({r.prefix!r}, {r.namespaceURI!r}) serialises as {text!r}")
            # V2 every URI used by a selector is declared
            # (declared by some @namespace rule: with two rules binding one prefix the mapping shows only one of them)
            declared = set(got.values()) | {u for _, u in rules}
            for r in style_rules(s):
                for sel in r.selectorList:
                    for kind, uri, local in pairs_of(sel):
                        if uri not in (ANY, None, "") and uri not in declared:
                            raise Viol("V2_used_uri_declared", f"{where}:undeclared-uri", f"after {where}: sheet {si} selector {sel.selectorText!r} uses {uri!r}, declared {got}")
        # V4 tracked selectors keep their meaning
        for rule, meant in self.tracked:
            if rule.parentStyleSheet is None:
                continue
            sels = list(rule.selectorList)
            if len(sels) != len(meant):
                continue
            for sel, m in zip(sels, meant):
                got = pairs_of(sel)
                if len(got) != len(m):
                    raise Viol("V4_meaning_kept", f"{where}:item-count", f"after {where}: {sel.selectorText!r} has items {got}, meant {m}")
                for (kind, uri, local), (mk, muri, mlocal, _) in zip(got, m):
                    if local != mlocal:
                        raise Viol("V4_meaning_kept", f"{where}:local-name", f"{sel.selectorText!r}: {got} meant {m}")
                    if muri == "DEFAULT":
                        continue  # V6 is judged at restart
                    if uri != muri:
                        raise Viol("V4_meaning_kept", f"{where}:uri", f"after {where}: {sel.selectorText!r} now means {got}, meant {m}")

        # V4 for rules taken out of their sheet: what the old sheet does afterwards does not reach them
        for rule, meant, mapping in self.detached:
            if rule.parentStyleSheet is not None:
                continue
            self.stats["oracle"] += 1
            k, text = lib.call(lambda: rule.selectorText)
            if k != "ok":
                raise Viol("V4_detached_rule", f"{where}:selectorText-raises:{lib.ename(text)}", f"after {where}: a rule taken out of its sheet (namespaces then {mapping}) cannot be serialised: {text!r}")
            sels = list(rule.selectorList)
            if len(sels) != len(meant):
                continue
            for sel, m in zip(sels, meant):
                got = pairs_of(sel)
                if len(got) != len(m):
                    raise Viol("V4_detached_rule", f"{where}:item-count", f"after {where}: detached {text!r} has items {got}, meant {m}")
                for (kind, uri, local), (mk, muri, mlocal, _) in zip(got, m):
                    if muri != "DEFAULT" and (uri != muri or local != mlocal):
                        raise Viol("V4_detached_rule", f"{where}:uri", f"after {where}: detached {text!r} now means {got}, meant {m}")
            # its serialisation re-resolves to the same pairs: under the declarations in force when the selectors were
            # written (the detached rule's own copy) or under those of its sheet when it was taken out (both are
            # legitimate sources of the prefixes it is written with)
            maps = [mp for mp in (self.created_map.get(id(rule)), mapping) if mp is not None]
            verdicts = []
            for mp in maps:
                k2, sl = lib.call(self.cu.css.SelectorList, (text, mp))
                if k2 != "ok":
                    verdicts.append(f"does not parse under {mp}: {sl!r}")
                    continue
                again = list(sl)
                bad = None
                if len(again) == len(sels):
                    for sel2, m in zip(again, meant):
                        got2 = pairs_of(sel2)
                        if len(got2) != len(m):
                            bad = f"items {got2}"
                            break
                        for (kind, uri, local), (mk, muri, mlocal, _) in zip(got2, m):
                            if muri != "DEFAULT" and uri != muri:
                                bad = f"means {got2} under {mp}"
                verdicts.append(bad)
            if maps and all(v is not None for v in verdicts):
                raise Viol("V4_detached_rule", f"{where}:serialisation-does-not-re-resolve", f"after {where}: detached rule serialises its selectors as {text!r}; meant {meant}; {verdicts}")

    def restart(self, si):
        cu = self.cu
        s = self.sheets[si % len(self.sheets)]
        mode = cu.log.raiseExceptions
        cu.log.raiseExceptions = False
        try:
            k, b = lib.call(lambda: s.cssText)
            if k != "ok":
                raise Viol("serialise", "sheet.cssText:raises", f"{b!r}")
            k, s2 = lib.call(cu.parseString, b)
        finally:
            cu.log.raiseExceptions = mode
        self.stats["oracle"] += 1
        self.stats["probe:restart"] += 1
        if k != "ok":
            raise Viol("V5_restart", "restart:reparse-raises", f"{b!r}: {s2!r}")
        m1, m2 = dict(s.namespaces.items()), dict(s2.namespaces.items())
        if ref_mapping(ns_rules(s)) is None:
            # one prefix bound to two URIs (reachable through the prefix setter of a rule): which one wins is not
            # fixed by the statement, and the parser keeps one rule per prefix - nothing to compare
            return "ambiguous"
        if m1 != m2:
            raise Viol("V5_restart", "restart:mapping", f"mapping {m1} but {b!r} reparses to {m2}")
        # (a rule without declarations is not serialised: not a loss)
        r1, r2 = [r for r in style_rules(s) if lib.call(lambda: r.cssText)[1]], style_rules(s2)
        if len(r1) != len(r2):
            raise Viol("V5_restart", "restart:rules-lost", f"{len(r1)} style rules, {b!r} reparses to {len(r2)}")
        default_now = m1.get("")
        tracked = {id(r): m for r, m in self.tracked}
        for a, b2 in zip(r1, r2):
            sa, sb = list(a.selectorList), list(b2.selectorList)
            if len(sa) != len(sb):
                raise Viol("V5_restart", "restart:selectors-lost", f"{a.selectorText!r} reparses to {b2.selectorText!r}")
            meant = tracked.get(id(a))
            for j, (x, y) in enumerate(zip(sa, sb)):
                # an attribute in the namespace whose only prefix is the default one has no spelling (statement silent)
                px = [t for t in pairs_of(x) if not (t[0] == "attribute-selector" and t[1] == default_now)]
                py = pairs_of(y)
                if len(px) != len(py):
                    raise Viol("V5_restart", "restart:items", f"{x.selectorText!r} -> {y.selectorText!r}: {px} vs {py}")
                for k2, ((kind, uri, local), (kind2, uri2, local2)) in enumerate(zip(px, py)):
                    unprefixed = meant is not None and len(meant) == len(sa) and len(meant[j]) == len(px) and meant[j][k2][1] == "DEFAULT"
                    if local != local2:
                        raise Viol("V5_restart", "restart:local", f"{x.selectorText!r} -> {y.selectorText!r}")
                    if uri is None and uri2 == "" and default_now not in (None, ""):
                        # name written without prefix while the sheet had no default namespace, default declared later
                        self.soft.append({"inv": "V6_unprefixed_follow_default", "sig": "restart:no-default-at-creation-becomes-empty-namespace", "detail": f"{local!r} in {x.selectorText!r} was written unprefixed before a default namespace existed; with default {default_now!r} it is serialised {y.selectorText!r} = the empty namespace"})
                        continue
                    if unprefixed:
                        # V6: follows the default namespace in force, or (leniently) any namespace
                        created_default = meant[j][k2][3]
                        if uri2 not in (default_now, created_default, None, ANY):
                            raise Viol("V6_unprefixed_follow_default", "restart:unprefixed", f"unprefixed {local!r} in {x.selectorText!r} reparses from {y.selectorText!r} as namespace {uri2!r}; default namespace in force {default_now!r}")
                    elif uri != uri2 and not (uri is None and uri2 == default_now):
                        raise Viol("V5_restart", "restart:uri", f"{x.selectorText!r} means {px} but its serialisation {y.selectorText!r} reparses to {py}")
        return "same"

    # ------------------------------------------------------------------ operations
    def snapshot(self, s):
        return (lib.call(lambda: s.cssText)[1] if True else None, tuple(ns_rules(s)), tuple(r.selectorText for r in style_rules(s)))

    def step(self, op):
        cu, k = self.cu, op["op"]
        s = self.sheets[op.get("s", 0) % len(self.sheets)]
        before = self.snapshot(s)
        before_map = dict(s.namespaces.items())
        out = "?"
        expect_reject = None
        if k == "ns_set":
            if op["prefix"] in before_map and before_map[op["prefix"]] != op["uri"]:
                self.stats["probe:rebind_prefix"] += 1
            kk, v = lib.call(s.namespaces.__setitem__, op["prefix"], op["uri"])
        elif k == "ns_del":
            kk, v = lib.call(s.namespaces.__delitem__, op["prefix"])
            uri = before_map.get(op["prefix"])
            if uri is not None and self.uri_used(s, uri) and [u for _, u in ns_rules(s)].count(uri) == 1 and op["prefix"] in before_map:
                expect_reject = "delete_used_namespace"
        elif k == "add_ns_rule":
            text = f'@namespace {op["prefix"]} "{op["uri"]}";' if op["prefix"] else f'@namespace "{op["uri"]}";'
            if op["uri"] in before_map.values() and before_map.get(op["prefix"] or "") != op["uri"]:
                self.stats["probe:uri_declared_again_under_other_prefix"] += 1
            if op.get("index") is None:
                kk, v = lib.call(s.add, text)
            else:
                kk, v = lib.call(s.insertRule, text, op["index"] % (len(s.cssRules) + 1))
        elif k == "rule_prefix":
            rules = [r for r in s.cssRules if r.typeString == "NAMESPACE_RULE"]
            if not rules:
                return "none"
            kk, v = lib.call(setattr, rules[op["i"] % len(rules)], "prefix", op["prefix"])
        elif k == "ns_rule_text":
            # the text of an @namespace rule in the sheet is replaced: another URI is refused (both error modes:
            # nothing changes), the same URI under another prefix re-binds
            rules = [r for r in s.cssRules if r.typeString == "NAMESPACE_RULE"]
            if not rules:
                return "none"
            rule = rules[op["i"] % len(rules)]
            uri = op["uri"] if op["uri"] is not None else rule.namespaceURI
            text = f'@namespace {op["prefix"]} "{uri}";' if op["prefix"] else f'@namespace "{uri}";'
            kk, v = lib.call(setattr, rule, "cssText", text)
            if uri != rule.namespaceURI or (kk == "ok" and op["uri"] is not None and op["uri"] != before_map.get(rule.prefix) and uri not in before_map.values()):
                expect_reject = "other_uri"
            if op["uri"] is not None and op["uri"] != [u for p_, u in before[1]][op["i"] % len(rules)]:
                expect_reject = "other_uri"
        elif k == "del_ns_rule":
            rules = [r for r in s.cssRules if r.typeString == "NAMESPACE_RULE"]
            if not rules:
                return "none"
            victim = rules[op["i"] % len(rules)]
            if self.uri_used(s, victim.namespaceURI) and [u for _, u in ns_rules(s)].count(victim.namespaceURI) == 1:
                expect_reject = "delete_used_namespace"
            kk, v = lib.call(s.deleteRule, victim)
        elif k in ("add_style", "set_selector"):
            text, meant, undeclared = self.build_selectors(s, op["sels"])
            if undeclared:
                expect_reject = "undeclared_prefix"
            if k == "add_style":
                n0 = len(style_rules(s))
                body = "{ }" if op.get("empty") else "{ top: 0 }"
                if op.get("empty"):
                    self.stats["probe:empty_bodied_rule"] += 1
                if op.get("in_media"):
                    medias = [r for r in s.cssRules if r.typeString == "MEDIA_RULE"]
                    if not medias:
                        kk, v = lib.call(s.add, f"@media print {{ {text} {body} }}")
                    else:
                        kk, v = lib.call(medias[0].add, f"{text} {body}")
                    self.stats["probe:selector_in_media"] += 1
                else:
                    kk, v = lib.call(s.add, f"{text} {body}")
                rules = style_rules(s)
                if kk == "ok" and len(rules) == n0 + 1 and not undeclared and not op.get("in_media"):
                    self.tracked.append((rules[-1], meant))
                    self.created_map[id(rules[-1])] = dict(before_map)
            else:
                rules = style_rules(s)
                if not rules:
                    return "norule"
                rule = rules[op["i"] % len(rules)]
                old = rule.selectorText
                kk, v = lib.call(setattr, rule, "selectorText", text)
                self.tracked = [(r, m) for r, m in self.tracked if r is not rule]
                if kk == "ok" and not undeclared and rule.selectorText != old:
                    self.tracked.append((rule, meant))
                    self.created_map[id(rule)] = dict(before_map)
        elif k == "detach":
            rules = [r for r in s.cssRules if r.typeString == "STYLE_RULE"]
            if not rules:
                return "norule"
            rule = rules[op["i"] % len(rules)]
            meant = next((m for r, m in self.tracked if r is rule), None)
            kk, v = lib.call(s.deleteRule, rule)
            if kk == "ok" and meant is not None and rule.parentStyleSheet is None and ref_mapping([(p, u) for p, u in before[1]]) is not None:
                self.detached.append((rule, meant, dict(before_map)))
                self.stats["probe:rule_detached_and_kept"] += 1
            before = self.snapshot(s)  # (the removal itself is judged by C09; here: what follows)
        elif k == "reattach":
            cands = [d for d in self.detached if d[0].parentStyleSheet is None]
            if not cands:
                return "none"
            rule, meant, mapping = cands[op["i"] % len(cands)]
            kk, v = lib.call(s.add, rule)
            self.detached = [d for d in self.detached if d[0] is not rule]
            self.tracked = [(r, m) for r, m in self.tracked if r is not rule]
            if kk == "ok" and rule.parentStyleSheet is s:
                self.stats["probe:detached_rule_attached_again"] += 1
        elif k == "move":
            if len(self.sheets) < 2:
                return "onesheet"
            dst = self.sheets[(op.get("s", 0) + 1) % len(self.sheets)]
            rules = [r for r in s.cssRules if r.typeString == "STYLE_RULE"]
            if not rules:
                return "norule"
            rule = rules[op["i"] % len(rules)]
            kk, v = lib.call(s.deleteRule, rule)
            if kk == "ok":
                kk, v = lib.call(dst.add, rule)
                if kk == "ok" and rule.parentStyleSheet is dst:
                    self.stats["probe:rule_moved_between_sheets"] += 1
                else:
                    # refused by the destination (e.g. it does not declare a namespace the rule uses): back home
                    self.stats["fault:MOVE_REFUSED"] += 1
                    lib.call(s.add, rule)
                    self.stats[f"op:{k}:refused"] += 1
                    self.check(k)
                    return "refused"
                # the rule's prefixes are re-read against the destination's declarations: not tracked further
                self.tracked = [(r, m) for r, m in self.tracked if r is not rule]
        elif k == "sheet_text":
            kk, v = lib.call(setattr, s, "cssText", op["text"])
            if kk == "ok" and before[0] != self.snapshot(s)[0]:
                self.source_check(s, op["text"], "sheet_text")
            if kk == "ok":
                self.tracked = [(r, m) for r, m in self.tracked if r.parentStyleSheet is not None and r.parentStyleSheet is not s]
        elif k == "restart":
            out = self.restart(op.get("s", 0))
            self.stats[f"op:{k}:{out}"] += 1
            return out
        else:
            raise ValueError(k)
        if kk == "exc":
            self.stats[f"unexpected:{k}:{lib.ename(v)}"] += 1
            out = "exc"
        elif kk == "dom":
            self.stats["fault:REJECTED_" + lib.ename(v)] += 1
            self.stats["oracle"] += 1
            after = self.snapshot(s)
            if after != before:
                raise Viol("rejected_changes_nothing", f"{k}:{lib.ename(v)}", f"{k} {op} raised {lib.ename(v)} but changed the sheet: {before} -> {after}")
            out = "rejected:" + lib.ename(v)
        else:
            self.stats["accepted"] += 1
            out = "ok"
        if expect_reject and ref_mapping([(p, u) for p, u in before[1]]) is None:
            expect_reject = None  # ambiguous prefix state: which URI a prefix denotes is open
        if expect_reject:
            after = self.snapshot(s)
            self.stats["oracle"] += 1
            if after != before:
                raise Viol("V3_V7_must_be_rejected", f"{k}:{expect_reject}", f"{k} {op} ({expect_reject}) changed the sheet: {before} -> {after}")
            if kk == "ok" and self.cfg["raise"] and expect_reject in ("delete_used_namespace", "other_uri"):
                raise Viol("V3_V7_must_be_rejected", f"{k}:{expect_reject}:no-exception", f"{k} {op} did not raise")
            self.stats["probe:" + ("delete_used_namespace_rejected" if expect_reject.startswith("delete") else "other_uri_rejected" if expect_reject == "other_uri" else "undeclared_prefix_rejected")] += 1
        if before_map.get("") != dict(s.namespaces.items()).get(""):
            self.stats["probe:default_namespace_changed"] += 1
        self.stats[f"op:{k}:{out.split(':')[0]}"] += 1
        self.check(k)
        return out

    def uri_used(self, s, uri):
        for r in style_rules(s):
            for sel in r.selectorList:
                if any(u == uri for _, u, _ in pairs_of(sel)):
                    return True
        return False

    def build_selectors(self, s, sels):
        """sels: [[(kind, prefix|None|'*'|'', local)]]; returns (text, meant pairs, uses undeclared prefix?)"""
        mapping = dict(s.namespaces.items())
        default = mapping.get("")
        texts, meant, undeclared = [], [], False
        for parts in sels:
            t, m = "", []
            for idx, part in enumerate(parts):
                kind, prefix, local = part[0], part[1], part[2]
                if kind == "type":
                    if idx:
                        t += " "
                    name = local
                elif kind == "universal":
                    if idx:
                        t += " > "
                    name = "*"
                else:
                    name = local
                if kind == "attr" and prefix == "":
                    prefix = None  # [|a] is [a]: attributes without prefix are in no namespace and carry no tuple
                if prefix is None:
                    pre = ""
                    if kind == "attr":
                        muri = None
                    else:
                        muri = "DEFAULT"
                elif prefix == "*":
                    pre, muri = "*|", ANY
                elif prefix == "":
                    pre, muri = "|", ""
                else:
                    pre = prefix + "|"
                    muri = mapping.get(prefix)
                    if muri is None:
                        undeclared = True
                if pre and len(parts) > idx and len(parts[idx]) > 3 and parts[idx][3]:
                    pre += "/**/"  # a comment between prefix and name: same meaning
                if kind == "not":
                    t += f":not({pre}{name})"
                    m.append(("negation-type-selector", muri, name, default))
                elif kind == "attr":
                    t += f"[{pre}{name}]"
                    if prefix is not None:
                        m.append(("attribute-selector", muri, name, default))
                else:
                    t += pre + name
                    m.append(("universal" if kind == "universal" else "type-selector", muri, name, default))
            texts.append(t)
            meant.append(m)
        return ", ".join(texts), meant, undeclared

    def finish(self):
        for i in range(len(self.sheets)):
            self.restart(i)

    def state(self):
        return tuple((tuple(ns_rules(s)), len(style_rules(s))) for s in self.sheets)


def gen_sel(r):
    parts = []
    n = r.choice([1, 1, 2])
    for i in range(n):
        kind = r.choice(["type", "type", "universal"])
        prefix = r.choice([None, None, "p", "q", "r", "*", "", "zz"])
        parts.append((kind, prefix, r.choice(LOCALS), r.random() < 0.15))
        if r.random() < 0.3:
            parts.append(("attr", r.choice([None, "p", "q", "*", ""]), r.choice(LOCALS)))
        elif r.random() < 0.25:
            parts.append(("not", r.choice(["p", "q", "r", "*", "", "zz"]), r.choice(LOCALS)))  # a type selector inside :not()
    return parts


def gen_op(r, w, i):
    cfg = w.cfg
    if i >= cfg["n_ops"]:
        return None
    k = r.choice(["ns_set", "ns_set", "ns_del", "ns_del", "add_ns_rule", "del_ns_rule", "rule_prefix", "add_style", "add_style", "add_style", "set_selector", "set_selector", "move", "sheet_text", "restart", "detach", "reattach", "ns_rule_text"])
    s = r.randrange(0, 2)
    if k == "ns_set":
        return {"op": k, "s": s, "prefix": r.choice(PREFIXES), "uri": r.choice(URIS)}
    if k == "ns_del":
        return {"op": k, "s": s, "prefix": r.choice(PREFIXES + ["zz"])}
    if k == "add_ns_rule":
        return {"op": k, "s": s, "prefix": r.choice(PREFIXES), "uri": r.choice(URIS), "index": r.choice([None, None, 0, 1, 2, 5])}
    if k == "del_ns_rule":
        return {"op": k, "s": s, "i": r.randrange(0, 4)}
    if k == "rule_prefix":
        return {"op": k, "s": s, "i": r.randrange(0, 4), "prefix": r.choice(PREFIXES + ["k"])}
    if k == "ns_rule_text":
        return {"op": k, "s": s, "i": r.randrange(0, 4), "prefix": r.choice(PREFIXES + ["k"]), "uri": r.choice([None, None, "u9", "u8"])}
    if k in ("detach", "reattach"):
        return {"op": k, "s": s, "i": r.randrange(0, 6)}
    if k == "add_style":
        return {"op": k, "s": s, "sels": [gen_sel(r) for _ in range(r.choice([1, 1, 2]))], "in_media": r.random() < 0.25, "empty": r.random() < 0.25}
    if k == "set_selector":
        return {"op": k, "s": s, "i": r.randrange(0, 6), "sels": [gen_sel(r) for _ in range(r.choice([1, 1, 2]))]}
    if k == "move":
        return {"op": k, "s": s, "i": r.randrange(0, 6)}
    if k == "sheet_text":
        ns = " ".join((f'@namespace {p} "{u}";' if p else f'@namespace "{u}";') for p, u in [(r.choice(PREFIXES), r.choice(URIS)) for _ in range(r.randrange(0, 3))])
        return {"op": k, "s": s, "text": ns + " " + r.choice(["a { left: 0 }", "p|a { left: 0 }", "*|a, |b { left: 0 }", "q|a { left: 0 } @media print { p|b { top: 0 } }"])}
    return {"op": "restart", "s": s}
