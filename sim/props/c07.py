"""C07 - CSS codec: round trip, CSS 2.1 detection, chunking invariance.

World: Producer(text, encoding) -> SimPipe -> stateful consumer (IncrementalDecoder, IncrementalEncoder,
StreamReader, StreamWriter of the 'css' codec).  The schedule is the arrival of data: chunk sizes,
interleaving of writes and reads, read sizes, short/empty reads, when final=True is passed.
Oracles: (1) refinement against the one-shot codec call, prefix-wise after every step and exactly at
the end; (2) round trip; (3) a reference detector written from CSS 2.1 4.4; (4) arrival monotonicity
of the detector ("unknown yet, never wrong").
"""
import codecs
import collections
import io

from sim.kit.runner import Viol

ID = "C07"
FORK = False  # cssutils.codec has no module state; consumers are created per run
RUNS = {"quick": 1_000_000, "thorough": 10_000_000}
RULE = (
    "run = one (text, encoding, consumer, parameters) world + one seeded arrival schedule (chunk cuts biased to BOM/@charset/multi-byte "
    "landmarks, read sizes, short and empty reads, final timing); runs >= N_random enumerate the single-cut sweep and the <=4-byte prefix sweep"
)
REAL = ["cssutils/codec.py (detectencoding_str/unicode, _fixencoding, encode, decode, IncrementalDecoder/Encoder, StreamReader/Writer)", "codecs registry and the underlying stdlib codecs"]
STUBS = ["SimPipe (byte queue with scripted delivery: short reads, empty reads before data)", "Producer (seeded text/encoding generator)"]
ASSUMPTIONS = [
    "texts contain neither U+0000 nor U+FEFF (they are indistinguishable from BOM bytes of another encoding; CSS 2.1 4.4 is silent there)",
    "all four consumers are driven with UTF-8/16/32, single-byte legacy and multi-byte CJK encodings; stateful ones (iso2022_jp, hz) too; a StreamWriter's end of stream is flush() followed by reset()",
    "reference detector is silent for inputs starting with '@' 00 or 00 (BOM-less UTF-16/32 signature rows)",
]
PROBES = [
    "cut_inside_bom",
    "cut_inside_charset_prefix",
    "cut_inside_name",
    "cut_before_closing_quote",
    "cut_inside_multibyte",
    "decision_on_chunk_ge3",
    "buffered_then_flushed_header",
    "explicit_overrides_header",
    "short_read",
    "empty_read_before_data",
    "oneshot_raises",
    "coder_reused_after_reset",
    "state_saved_and_restored",
    "writer_reset_at_end",
    "writer_reset_wrote_pending",
]

PREFIX = '@charset "'

UTF = ["utf-8", "utf-8-sig", "utf-16", "utf-16-le", "utf-16-be", "utf-32", "utf-32-le", "utf-32-be"]
SINGLE = ["ascii", "iso-8859-1", "cp1252", "koi8-r", "iso-8859-15", "cp1251", "mac-roman", "cp437", "iso-8859-7"]
MULTI = ["gbk", "shift_jis", "euc-jp", "big5", "iso2022_jp", "hz", "iso2022_jp_2"]
STATEFUL = ("iso2022_jp", "hz", "iso2022_jp_2")  # encoders with a shift state: the last (even empty) chunk emits the return to ASCII
TOTAL8 = ["iso-8859-1", "cp437", "koi8-r", "mac-roman", "iso-8859-15"]  # every byte decodes
SPELL = {
    "utf-8": ["utf-8", "UTF-8", "utf_8", "utf8", "Utf-8"],
    "utf-8-sig": ["utf-8-sig", "UTF-8-SIG", "utf_8_sig"],
    "utf-16": ["utf-16", "UTF-16", "utf_16", "utf16"],
    "utf-16-le": ["utf-16-le", "UTF-16LE", "utf_16_le"],
    "utf-16-be": ["utf-16-be", "UTF-16BE", "utf_16_be"],
    "utf-32": ["utf-32", "UTF-32", "utf_32"],
    "utf-32-le": ["utf-32-le", "UTF-32LE"],
    "utf-32-be": ["utf-32-be", "UTF-32BE"],
    "iso-8859-1": ["iso-8859-1", "latin-1", "latin1", "ISO-8859-1", "l1"],
    "ascii": ["ascii", "us-ascii", "ASCII"],
}
POOLS = [
    "abcdefghijklmnopqrstuvwxyz{}:;,.#-_ \n\t()0123456789",
    "a{}:; \n",
    "@\"'\\/*",
    "äöüßéèñ©µÿ",
    "абвгдЖЯё",
    "αβγΩ",
    "€“•™",
    "中文字あアＡ",
    "\U0001f600\U0001f4a9\U00010348\U0002000b",
]


def spellings(enc):
    return SPELL.get(enc, [enc, enc.upper()])


def encodable(text, enc):
    try:
        text.encode(enc)
        return True
    except (UnicodeEncodeError, LookupError):
        return False


def gen_body(r, enc, n):
    pools = [p for p in POOLS if r.random() < 0.45] or [POOLS[0]]
    out = []
    for _ in range(n):
        c = r.choice(r.choice(pools))
        if encodable(c, enc):
            out.append(c)
        else:
            out.append(r.choice(POOLS[0]))
    if enc in STATEFUL and r.random() < 0.6:
        out.append(r.choice([c for c in POOLS[7] if encodable(c, enc)] or ["a"]))  # ends in the shifted state
    return "".join(out)


def gen_header(r, enc):
    k = r.random()
    others = UTF + SINGLE
    if k < 0.22:
        return ""
    if k < 0.55:
        return PREFIX + r.choice(spellings(enc)) + '"' + r.choice([";", ";\n", "; ", ""])
    if k < 0.70:  # contradicting but valid name
        return PREFIX + r.choice(spellings(r.choice(others))) + '";'
    if k < 0.80:  # truncated header: proper prefix of a rule
        full = PREFIX + r.choice(spellings(enc)) + '";'
        return full[: r.randrange(1, len(full))]
    if k < 0.86:  # unterminated name followed by other text without a double quote
        return PREFIX + r.choice(spellings(enc)) + r.choice([";", "; a{}", " "])
    return r.choice(["@import 'x';", "@media all{a{b:c}}", "@charset'utf-8';", "@charsetx \"utf-8\";", "@CHARSET \"utf-8\";", " @charset \"utf-8\";", "@c", "@", "a{b:c}"])


def ref_fix(text, enc):
    """Reference of the @charset rewrite: the name in a leading complete rule becomes enc (utf-8 for utf-8-sig)."""
    if text.startswith(PREFIX):
        pos = text.find('"', len(PREFIX))
        if pos >= 0 and len(text) > len(PREFIX):
            if enc.replace("_", "-").lower() == "utf-8-sig":
                enc = "utf-8"
            return PREFIX + enc + text[pos:]
    return text


def ref_detect_bytes(b):
    """CSS 2.1 4.4 as restated in the property, for a complete input. None = reference is silent."""
    if b.startswith(b"\xef\xbb\xbf"):
        return ("utf-8-sig", True)
    if b.startswith(b"\xff\xfe\x00\x00"):
        return ("utf-32", True)
    if b.startswith(b"\x00\x00\xfe\xff"):
        return ("utf-32", True)
    if b.startswith(b"\xff\xfe"):
        return ("utf-16", True) if len(b) != 3 or b[2:3] != b"\x00" else None
    if b.startswith(b"\xfe\xff"):
        return ("utf-16", True)
    if b[:1] == b"\x00":
        return None
    if b[:1] == b"@":
        if b[1:2] == b"\x00":
            return None
        p = PREFIX.encode("ascii")
        if b.startswith(p):
            pos = b.find(b'"', len(p))
            if pos >= 0:
                try:
                    return (b[len(p) : pos].decode("latin-1"), True)
                except Exception:
                    return None
        return ("utf-8", False)
    return ("utf-8", False)


def ref_detect_text(t):
    if t.startswith(PREFIX):
        pos = t.find('"', len(PREFIX))
        if pos >= 0:
            return (t[len(PREFIX) : pos], True)
    return ("utf-8", False)


class SimPipe:
    """Byte queue between producer and a stream consumer. read() never blocks: it returns what has
    arrived (at most `cap` bytes: a short read) or b'' when nothing has arrived yet."""

    def __init__(self):
        self.buf = bytearray()
        self.cap = None
        self.reads = 0
        self.short = 0
        self.empty = 0

    def feed(self, b):
        self.buf += b

    def read(self, size=-1):
        self.reads += 1
        n = len(self.buf) if size is None or size < 0 else min(size, len(self.buf))
        if self.cap is not None and n > self.cap:
            n = self.cap
            self.short += 1
        if n == 0:
            self.empty += 1
        out = bytes(self.buf[:n])
        del self.buf[:n]
        return out


N_SWEEP_HEADERS = None


def _sweep_space():
    """Deterministic sub-sweeps, enumerated as run indices after the random runs."""
    items = []
    heads = ["", PREFIX + '{E}";', PREFIX + '{E}"', PREFIX + "{E}", "@charse", "@import 'x';"]
    consumers = [("idec", None, True), ("idec", "E", True), ("idec", "E", False), ("ienc", None, True), ("ienc", "E", True), ("sread", None, True), ("swrite", None, True), ("swrite", "E", True)]
    for enc in UTF + SINGLE[:5]:
        for h in heads:
            for c in consumers:
                items.append(("cut", enc, h, c))
    return items


_SWEEP = _sweep_space()
CLASSES = [0xEF, 0xBB, 0xBF, 0xFF, 0xFE, 0x00, 0x40, 0x63, 0x68, 0x61, 0x78]
N_CUT_RUNS = len(_SWEEP) * 48
N_PREFIX_RUNS = len(CLASSES) ** 3  # one run per first three classes; the run iterates the 4th and the tails
SWEEP_TOTAL = N_CUT_RUNS + N_PREFIX_RUNS


def n_random(tier):
    return RUNS[tier] - SWEEP_TOTAL


def config(rs, run, tier):
    nr = n_random(tier)
    if run >= nr:
        k = run - nr
        if k < N_CUT_RUNS:
            kind, enc, h, (cons, explicit, force) = _SWEEP[k // 48]
            cut = k % 48 + 1
            head = h.replace("{E}", enc)
            text = head + " a{content:'ä'}" if encodable("ä", enc) else head + " a{b:c}"
            return {"kind": "run", "consumer": cons, "enc": enc, "explicit": enc if explicit else None, "force": force, "text": text, "script": [{"op": "feed", "n": cut, "final": False}], "n_ops": 1, "final_mode": "with_last", "sweep": "single_cut"}
        k -= N_CUT_RUNS
        c = CLASSES
        return {"kind": "prefix", "b3": [c[k // 121], c[(k // 11) % 11], c[k % 11]], "script": [{"op": "prefix_family"}], "n_ops": 1, "sweep": "prefix4"}
    r = rs("config")
    cons = r.choice(["idec", "idec", "ienc", "ienc", "sread", "swrite"])
    if cons == "sread":
        enc = r.choice(UTF + SINGLE + MULTI)
    elif cons == "swrite":
        # (stateful encodings included: the writer's reset() at the end of the stream returns to ASCII)
        enc = r.choice(UTF + SINGLE + MULTI)
    else:
        enc = r.choice(UTF + SINGLE + MULTI)
    c = rs("content")
    head = gen_header(c, enc)
    body = gen_body(c, enc, c.choice([0, 0, 1, 2, 5, 12, 30, 80, 180]))
    text = head + body
    if not encodable(text, enc):
        text = "".join(ch if encodable(ch, enc) else "?" for ch in text)
    explicit = r.choice([None, None, enc, enc, r.choice(UTF + SINGLE)])
    if cons in ("ienc", "swrite"):
        if explicit is not None and not encodable(text, explicit):
            explicit = enc
    elif explicit not in (None, enc) and explicit not in TOTAL8:
        # a decoder may be told an encoding other than the producer's only if every byte string is valid in it
        explicit = r.choice(TOTAL8)
    force = r.random() < 0.7
    return {
        "kind": "run",
        "consumer": cons,
        "enc": enc,
        "explicit": explicit,
        "force": force,
        "text": text,
        "n_ops": r.choice([1, 2, 3, 4, 6, 9, 12, 12]),
        "final_mode": r.choice(["with_last", "trailing_empty"]),
        "migrate_rate": r.choice([0.0, 0.0, 0.15, 0.4]),
        "reuse_after_reset": r.choice([None, None, '@charset "iso-8859-1";\u00e4 { }', "\u00e4 { left: 0 }", '@charset "utf-16";a{}']),
        "landmark_bias": r.choice([0.0, 0.5, 0.5, 0.9]),
        "short_rate": r.choice([0.0, 0.2, 0.6]),
    }


class World:
    def __init__(self, cfg):
        from cssutils import codec  # noqa: F401  (registers 'css')

        self.codec = codec
        self.cfg = cfg
        self.stats = collections.Counter()
        self.kind = cfg["kind"]
        if self.kind == "prefix":
            return
        self.cons = cfg["consumer"]
        self.text = cfg["text"]
        self.enc = cfg["enc"]
        self.explicit = cfg["explicit"]
        self.force = cfg["force"]
        self.decoding = self.cons in ("idec", "sread")
        self.pos = 0
        self.nfeeds = 0
        self.decided_at = None
        self.finalised = False
        self.raised = None
        # producer: what is on the wire
        if self.decoding:
            wire_enc = self.enc
            t = self.text
            self.data = t.encode(wire_enc)
            self.out = ""
            try:
                self.expected = codec.decode(self.data, "strict", self.explicit, self.force)[0]
                self.expected_exc = None
            except Exception as e:  # one-shot raises: the schedule must raise the same class
                self.expected, self.expected_exc = None, type(e).__name__
        else:
            self.data = self.text
            self.out = b""
            try:
                self.expected = codec.encode(self.text, "strict", self.explicit)[0]
                self.expected_exc = None
            except Exception as e:
                self.expected, self.expected_exc = None, type(e).__name__
        self.vacuous = False
        if self.expected_exc:
            # not "a text and an encoding able to represent it": the schedule is still executed
            # (it must not return wrong data) but equality with the one-shot result is not judged
            self.stats["probe:oneshot_raises"] += 1
            self.vacuous = True
        if self.decoding and self.expected_exc is None:
            det = codec.detectencoding_str(self.data, True)
            applied = self.explicit if (self.explicit and (self.force or not det[1])) else det[0]
            try:
                norm = codecs.lookup(applied).name
            except LookupError:
                norm = applied
            if norm in ("utf-16", "utf-32") and not self.data.startswith((b"\xff\xfe", b"\xfe\xff", b"\x00\x00\xfe\xff")):
                # stdlib: the one-shot utf-16/32 decoders assume native order without a BOM, the incremental ones refuse
                self.stats["probe:stdlib_bomless_utf16_skipped"] += 1
                self.vacuous = True
        if not self.decoding and self.expected_exc is None:
            # the encoding the text's own header names (no explicit one): when it is a codec outside the generator's
            # canonical families - reachable through a torn header followed by body characters, e.g. "utf_7'" - the
            # same text has several valid byte forms (UTF-7 shift sequences) and the stdlib's own one-shot and
            # chunked encoders already differ: executed, equality not judged
            applied = self.explicit or codec.detectencoding_unicode(self.text, True)[0] or "utf-8"
            try:
                norm = codecs.lookup(applied).name
            except LookupError:
                norm = None
            known = {codecs.lookup(e).name for e in UTF + SINGLE + MULTI}
            if norm is not None and norm not in known:
                self.stats["probe:foreign_codec_named_by_header"] += 1
                self.vacuous = True
        self.final_answer = codec.detectencoding_str(self.data, True) if self.decoding else codec.detectencoding_unicode(self.text, True)
        # consumer under test
        if self.cons == "idec":
            self.c = codecs.getincrementaldecoder("css")("strict", encoding=self.explicit, force=self.force)
        elif self.cons == "ienc":
            self.c = codecs.getincrementalencoder("css")("strict", encoding=self.explicit)
        elif self.cons == "sread":
            self.pipe = SimPipe()
            self.c = codecs.getreader("css")(self.pipe, "strict", encoding=self.explicit, force=self.force)
        else:
            self.sink = io.BytesIO()
            self.c = codecs.getwriter("css")(self.sink, "strict", encoding=self.explicit)
        self.landmarks = self._landmarks()
        if self.explicit and self.text.startswith(PREFIX) and ref_detect_text(self.text)[1] and ref_detect_text(self.text)[0].lower() != self.explicit.lower():
            self.stats["probe:explicit_overrides_header"] += 1

    # -- schedule support ---------------------------------------------------------------
    def _landmarks(self):
        """positions (in units) where a cut is interesting, with a label"""
        lm = {}
        t = self.text
        if self.decoding:
            d = self.data
            bom = 0
            for b in (b"\xef\xbb\xbf", b"\xff\xfe\x00\x00", b"\x00\x00\xfe\xff", b"\xff\xfe", b"\xfe\xff"):
                if d.startswith(b):
                    bom = len(b)
                    break
            for i in range(1, bom):
                lm[i] = "cut_inside_bom"
            # byte offset of every char (prefix encodings; BOM included consistently)
            offs = [len(t[:i].encode(self.enc)) for i in range(len(t) + 1)]
            for i in range(len(t)):
                for j in range(offs[i] + 1, offs[i + 1]):
                    lm.setdefault(j, "cut_inside_multibyte")
            pos_of = lambda ci: offs[ci] if ci < len(offs) else len(d)  # noqa: E731
            lm.setdefault(4, "cut_at_window")
        else:
            pos_of = lambda ci: ci  # noqa: E731
        if PREFIX.startswith(t[: len(PREFIX)]) or t.startswith(PREFIX):
            for ci in range(1, min(len(PREFIX), len(t)) + 1):
                lm[pos_of(ci)] = "cut_inside_charset_prefix"
            if t.startswith(PREFIX):
                q = t.find('"', len(PREFIX))
                end = q if q >= 0 else len(t)
                for ci in range(len(PREFIX) + 1, end):
                    lm[pos_of(ci)] = "cut_inside_name"
                if q >= 0:
                    lm[pos_of(q)] = "cut_before_closing_quote"
                    lm[pos_of(q + 1)] = "cut_before_semicolon"
        return {p: k for p, k in lm.items() if 0 < p < len(self.data)}

    def remaining(self):
        return len(self.data) - self.pos

    # -- operations ---------------------------------------------------------------------
    def step(self, op):
        if self.kind == "prefix":
            return self._prefix_family()
        k = op["op"]
        if self.raised:
            return "dead"
        try:
            if k == "migrate":
                # the state of the coder is saved and restored into a new coder, which takes over (what
                # io.TextIOWrapper does on tell()/seek()): nothing buffered or decided may be lost
                if self.cons not in ("idec", "ienc"):
                    return "n/a"
                state = self.c.getstate()
                if self.cons == "idec":
                    new = codecs.getincrementaldecoder("css")("strict", encoding=self.explicit, force=self.force)
                else:
                    new = codecs.getincrementalencoder("css")("strict", encoding=self.explicit)
                new.setstate(state)
                self.c = new
                self.stats["fault:STATE_MIGRATED"] += 1
                self.stats["probe:state_saved_and_restored"] += 1
                return "migrated"
            if k == "feed":
                return self._feed(op["n"], op.get("final", False))
            if k == "read":
                return self._read(op)
            raise ValueError(k)
        except Viol:
            raise
        except Exception as e:
            return self._on_exc(e, k)

    def _on_exc(self, e, where):
        self.raised = type(e).__name__
        self.stats[f"op:{where}:raised:{self.raised}"] += 1
        if self.vacuous:
            return "raised:" + self.raised
        if self.expected_exc is None:
            raise Viol("stream_equals_oneshot", f"{self.cons}:raises:{self.raised}", f"{self.cons} raised {e!r} where the one-shot call returns; text={self.text!r} enc={self.enc} explicit={self.explicit}")
        if self.raised != self.expected_exc:
            raise Viol("stream_equals_oneshot", f"{self.cons}:exception-class", f"raised {self.raised}, one-shot raises {self.expected_exc}; text={self.text!r}")
        self.stats["oracle"] += 1
        return "raised:" + self.raised

    def _take(self, n):
        n = max(0, min(n, self.remaining()))
        chunk = self.data[self.pos : self.pos + n]
        lab = self.landmarks.get(self.pos + n)
        if lab and n > 0 and self.pos + n < len(self.data):
            self.stats["probe:" + lab] += 1
        self.pos += n
        return chunk

    def _got(self, piece, want_type):
        if not isinstance(piece, want_type):
            raise Viol("output_type", f"{self.cons}:type:{type(piece).__name__}", f"{self.cons} produced {type(piece).__name__} {piece!r}, expected {want_type.__name__}; text={self.text!r} enc={self.enc} explicit={self.explicit}")
        if piece:
            if self.decided_at is None:
                self.decided_at = self.nfeeds
                if self.nfeeds >= 3:
                    self.stats["probe:decision_on_chunk_ge3"] += 1
                if self.nfeeds >= 2:
                    self.stats["probe:buffered_then_flushed_header"] += 1
            self.out += piece
            self.stats["accepted"] += 1
            if self.expected is not None and not self.vacuous:
                self.stats["oracle"] += 1
                if not self.expected.startswith(self.out):
                    raise Viol("stream_prefix_of_oneshot", f"{self.cons}:wrong-data", f"output so far {self.out!r} is not a prefix of the one-shot result {self.expected!r}; text={self.text!r} enc={self.enc} explicit={self.explicit} force={self.force}")

    def _monotone(self):
        """oracle 4 along the arrival schedule"""
        seen = self.data[: self.pos]
        if self.decoding:
            ans = self.codec.detectencoding_str(seen, False)
        else:
            ans = self.codec.detectencoding_unicode(seen, False)
        self.stats["oracle"] += 1
        if ans[0] is not None and self.pos < len(self.data) and tuple(ans) != tuple(self.final_answer):
            raise Viol("detector_monotone", f"detect_{'str' if self.decoding else 'unicode'}:early-wrong", f"prefix {seen!r} -> {ans}, complete input {self.data!r} -> {self.final_answer}")

    def _feed(self, n, final):
        chunk = self._take(n)
        self.nfeeds += 1
        last = self.remaining() == 0
        fin = bool(final and last)
        if self.cons == "idec":
            self._got(self.c.decode(chunk, fin), str)
        elif self.cons == "ienc":
            self._got(self.c.encode(chunk, fin), bytes)
        elif self.cons == "sread":
            self.pipe.feed(chunk)
        else:
            before = len(self.sink.getvalue())
            self.c.write(chunk)
            self._got(self.sink.getvalue()[before:], bytes)
        if fin:
            self.finalised = True
        self._monotone()
        self.stats[f"op:feed:{'final' if fin else 'more'}"] += 1
        return f"fed{len(chunk)}:{len(self.out)}"

    def _read(self, op):
        if self.cons != "sread":
            return "n/a"
        self.pipe.cap = op.get("cap")
        s0, e0 = self.pipe.short, self.pipe.empty
        try:
            if op.get("line"):
                piece = self.c.readline()
            else:
                piece = self.c.read(op.get("size", -1), op.get("chars", -1))
        finally:
            self.pipe.cap = None
        if self.pipe.short > s0:
            self.stats["fault:SHORT_READ"] += self.pipe.short - s0
            self.stats["probe:short_read"] += 1
        if self.pipe.empty > e0 and self.remaining() > 0:
            self.stats["fault:EMPTY_READ_BEFORE_DATA"] += 1
            self.stats["probe:empty_read_before_data"] += 1
        self._got(piece, str)
        self.stats["op:read:" + ("data" if piece else "nothing")] += 1
        return f"read{len(piece)}"

    # -- end of schedule ----------------------------------------------------------------
    def finish(self):
        if self.kind == "prefix" or self.raised:
            if self.kind != "prefix" and self.raised:
                return
            return
        try:
            if self.cons in ("idec", "ienc"):
                if not self.finalised:
                    if self.cfg.get("final_mode") == "trailing_empty":
                        if self.remaining():
                            self._feed(self.remaining(), False)
                        empty = b"" if self.decoding else ""
                        self.nfeeds += 1
                        piece = self.c.decode(empty, True) if self.cons == "idec" else self.c.encode(empty, True)
                        self._got(piece, str if self.decoding else bytes)
                    else:
                        self._feed(self.remaining(), True)
            elif self.cons == "sread":
                if self.remaining():
                    self._feed(self.remaining(), False)
                quiet = 0
                for _ in range(12):
                    piece = self.c.read()
                    self._got(piece, str)
                    quiet = quiet + 1 if not piece else 0
                    if quiet >= 2:
                        break
            else:
                if self.remaining():
                    self._feed(self.remaining(), False)
                self.c.flush()
                # end of stream for a codecs.StreamWriter: reset() "puts the output into a clean state" - an
                # undecided header still held back and the return to ASCII of a stateful encoding are written
                before = len(self.sink.getvalue())
                self.c.reset()
                self.stats["probe:writer_reset_at_end"] += 1
                tail = self.sink.getvalue()[before:]
                if tail:
                    self.stats["probe:writer_reset_wrote_pending"] += 1
                self._got(tail, bytes)
        except Viol:
            raise
        except Exception as e:
            self._on_exc(e, "finish")
            return
        if self.vacuous:
            return
        self.stats["oracle"] += 1
        if not isinstance(self.expected, str if self.decoding else bytes):
            raise Viol("output_type", f"oneshot:{'decode' if self.decoding else 'encode'}", f"one-shot result has type {type(self.expected).__name__}")
        if self.out != self.expected:
            sig = f"{self.cons}:mismatch"
            t = self.text
            undecided_text = (PREFIX.startswith(t)) or (t.startswith(PREFIX) and t.find('"', len(PREFIX)) < 0)
            if self.cons in ("sread", "swrite") and self.out in ("", b""):
                if undecided_text or (self.cons == "sread" and len(self.data) < 4 and self.codec.detectencoding_str(self.data, False)[0] is None):
                    sig = f"{self.cons}:undecided-header-at-end-of-stream"
            raise Viol("stream_equals_oneshot", sig, f"chunked result {self.out!r} != one-shot {self.expected!r}; text={self.text!r} enc={self.enc} explicit={self.explicit} force={self.force}")
        self._reuse_after_reset()
        self._pure_oracles()

    def _reuse_after_reset(self):
        """an incremental coder that is reset() and given a second document (another encoding) behaves like a new one"""
        if self.cons not in ("idec", "ienc") or not self.cfg.get("reuse_after_reset"):
            return
        codec = self.codec
        text2 = self.cfg["reuse_after_reset"]
        try:
            if self.cons == "idec":
                enc2 = "iso-8859-1" if "iso-8859-1" in text2 else "utf-16"
                data2 = text2.encode(enc2)
                want = codec.decode(data2, "strict", self.explicit, self.force)[0]
            else:
                want = codec.encode(text2, "strict", self.explicit)[0]
        except Exception:  # noqa: BLE001
            return  # the one-shot call refuses this combination: nothing to compare
        self.stats["oracle"] += 1
        self.stats["probe:coder_reused_after_reset"] += 1
        try:
            self.c.reset()
            got = self.c.decode(data2, True) if self.cons == "idec" else self.c.encode(text2, True)
        except Exception as e:  # noqa: BLE001
            raise Viol("reset_forgets_previous_input", f"{self.cons}:raises:{type(e).__name__}", f"after reset() the coder raised {e!r} on a second document {text2!r}; first document {self.text[:60]!r} in {self.enc}")
        if got != want:
            raise Viol("reset_forgets_previous_input", f"{self.cons}:mismatch", f"after reset() the coder gives {got!r} for a second document {text2!r}, a new coder / the one-shot call {want!r}; first document {self.text[:60]!r} in {self.enc}")

    def _pure_oracles(self):
        try:
            self._pure_oracles2()
        except Viol:
            raise
        except Exception as e:
            raise Viol("pure_oracle_raises", f"{type(e).__name__}", f"{e!r} for text={self.text!r} enc={self.enc}")

    def _pure_oracles2(self):
        """oracles 2 and 3: pure functions of the input, evaluated once per run (input generation, labelled as such)"""
        codec, t, enc = self.codec, self.text, self.enc
        # (3) reference detector on the complete input
        if self.decoding:
            ref = ref_detect_bytes(self.data)
            if ref is not None:
                got = codec.detectencoding_str(self.data, True)
                self.stats["oracle"] += 1
                if tuple(got) != ref:
                    raise Viol("detector_reference", "detect_str:final", f"{self.data!r}: detectencoding_str -> {got}, CSS 2.1 4.4 reference -> {ref}")
        else:
            ref = ref_detect_text(t)
            got = codec.detectencoding_unicode(t, True)
            self.stats["oracle"] += 1
            if tuple(got) != ref:
                sig = "detect_unicode:final"
                if got[0] is None:
                    sig = "detect_unicode:final-none"
                raise Viol("detector_reference", sig, f"{t!r}: detectencoding_unicode -> {got}, reference -> {ref}")
        # (2) round trip through the encoding the producer used
        b = codec.encode(t, "strict", enc)[0]
        want = ref_fix(t, enc)
        back = codec.decode(b, "strict", enc, True)[0]
        self.stats["oracle"] += 1
        if back != want:
            raise Viol("round_trip", "explicit", f"decode(encode({t!r}, {enc}), {enc}) = {back!r}, expected {want!r}")
        has_bom = enc in ("utf-8-sig", "utf-16", "utf-32")
        has_rule = want.startswith(PREFIX) and ref_detect_text(want)[1] and enc not in ("utf-16", "utf-32")
        if has_bom or has_rule:
            back = codec.decode(b, "strict", None, True)[0]
            self.stats["oracle"] += 1
            if back != want:
                raise Viol("round_trip", "autodetect", f"decode(encode({t!r}, {enc})) auto-detected = {back!r}, expected {want!r}")

    def _prefix_family(self):
        """oracle 4 over every <=4-byte prefix starting with three given byte classes, with three tails"""
        d = self.codec.detectencoding_str
        b3 = bytes(self.cfg["b3"])
        n = 0
        for c4 in CLASSES:
            p4 = b3 + bytes([c4])
            for tail in (b"", b'rset "x";', b"\x00\x00\x00a{}"):
                whole = p4 + tail
                fin = d(whole, True)
                if fin[0] is None:
                    raise Viol("detector_total", "detect_str:none-when-final", f"{whole!r} final -> {fin}")
                for k in range(0, len(whole)):
                    a = d(whole[:k], False)
                    n += 1
                    if a[0] is not None and tuple(a) != tuple(fin):
                        raise Viol("detector_monotone", "detect_str:early-wrong", f"prefix {whole[:k]!r} -> {a}, complete {whole!r} -> {fin}")
                ref = ref_detect_bytes(whole)
                if ref is not None and tuple(fin) != ref:
                    raise Viol("detector_reference", "detect_str:final", f"{whole!r}: {fin}, reference {ref}")
        self.stats["oracle"] += n
        self.stats["accepted"] += 1
        return f"family:{n}"

    def state(self):
        if self.kind == "prefix":
            return ("p", tuple(self.cfg["b3"]))
        c = self.c
        inner = getattr(c, "decoder", None) or getattr(c, "encoder", None) or getattr(c, "streamreader", None) or getattr(c, "streamwriter", None)
        # abstract state: consumer kind, encoding decided?, header still buffered?, what kind of landmark the cut sits on
        return (self.cons, self.enc, self.explicit is not None, self.force, inner is not None, self.landmarks.get(self.pos), self.pos == len(self.data), min(self.nfeeds, 4), bool(self.out))


def gen_op(r, w, i):
    cfg = w.cfg
    if "script" in cfg:
        return cfg["script"][i] if i < len(cfg["script"]) else None
    if i >= cfg["n_ops"] or w.raised:
        return None
    rem = w.remaining()
    if w.cons == "sread" and (rem == 0 or r.random() < 0.45):
        op = {"op": "read"}
        k = r.random()
        if k < 0.3:
            pass
        elif k < 0.6:
            op["size"] = r.choice([1, 2, 3, 4, 5, 8, 16, 64])
        elif k < 0.8:
            op["size"] = r.choice([1, 2, 4, 16])
            op["chars"] = r.choice([1, 2, 5, 20])
        else:
            op["line"] = True
        if r.random() < cfg["short_rate"]:
            op["cap"] = r.choice([1, 1, 2, 3, 5])
        return op
    if rem == 0:
        return None
    if w.cons in ("idec", "ienc") and w.pos and not w.finalised and r.random() < cfg.get("migrate_rate", 0.0):
        return {"op": "migrate"}
    if r.random() < cfg["landmark_bias"]:
        nxt = sorted(p for p in w.landmarks if p > w.pos)
        if nxt:
            n = r.choice(nxt[:6]) - w.pos
            return {"op": "feed", "n": n, "final": cfg["final_mode"] == "with_last"}
    n = r.choice([1, 1, 2, 3, 4, r.randrange(1, rem + 1), r.randrange(1, rem + 1), rem])
    return {"op": "feed", "n": n, "final": cfg["final_mode"] == "with_last"}


def simplify(op):
    if op.get("op") == "read":
        for k in ("cap", "chars", "size", "line"):
            if k in op:
                o = dict(op)
                del o[k]
                yield o
