"""C16 - selector specificity, structure and list semantics.

World: a SelectorList (stand-alone, in a detached rule, in a rule of a sheet) driven by a seeded history of
appendSelector / item replacement / selectorText assignment / attach / detach / restart, in lock step
with an ordered-list-with-move-to-end model.  Every selector comes from a constructive CSS3 grammar
generator that knows the specificity and the sequence of simple selectors it wrote; each is rendered in
several spellings (whitespace, comments, case of :not and pseudo names).
"""
import collections

from sim.kit import lib
from sim.kit.runner import Viol
from sim.obs import project as P
from sim.world import simlog

ID = "C16"
FORK = True
RUNS = {"quick": 14_000, "thorough": 280_000}
RULE = "run = one selector list (stand-alone / detached rule / rule in a sheet) + seeded history of appendSelector / item replacement / selectorText assignment (incl. one invalid member) / attach / detach / restart; every selector is generated with its specificity and simple-selector sequence known by construction and checked in 2-3 spellings"
REAL = ["cssutils/css/selector.py", "cssutils/css/selectorlist.py", "cssutils/css/cssstylerule.py", "cssutils/serialize.py (do_css_Selector, do_css_SelectorList)"]
STUBS = ["SimLog log sink"]
ASSUMPTIONS = [
    "pseudo-classes are in no column of the statement's formula (ids | classes and attributes | types and pseudo-elements) and are therefore expected to contribute nothing",
    "the counting formula is reached through generated selectors (input generation); the simulation-level clauses are the list histories, attach/detach and restart",
    "item replacement follows list semantics (the statement only fixes move-to-end for append)",
]
PROBES = ["append_present_moves_to_end", "invalid_member_rejects_list", "class_inside_not_in_later_compound", "attached", "detached", "restart", "spelling_variants_agree", "functional_pseudo_in_not", "invalid_text_on_member"]

# (names with escapes for characters that are no name characters: delimiters of the selector syntax itself)
TYPES = ["a", "b", "div", "p", "span", "h1", "li", "a\\7b ", "x\\20 y", "d\\3e e", "s\\2c t", "u\\7c v"]
IDS = ["i", "id1", "x", "i\\23 j", "k\\a "]
CLASSES = ["c", "foo", "k", "a-b", "x1", "c\\2e d", "\\31 0", "m\\ "]
ATTRS = ["t", "href", "lang", "data-x", "t\\3d u", "\\31 x"]
ATTR_OPS = ["", "=v", '="v w"', "~=v", "|=en", "^=v", "$=v", "*=v", "='q'",
            # strings whose content looks like selector syntax: counted as nothing
            '="["', '="]"', '="#a"', '=".b"', '=":not(x)"', '="a > b"', "='*'", '="[x=y]"', '~="#i.c"', '="::after"', '=","']
PCLASS = ["hover", "first-child", "link", "last-child", "empty", "nth-child(2n+1)", "nth-of-type(odd)", "lang(en)", "nth-last-child(3)"]
PELEM = ["::after", "::before", ":first-line", ":first-letter", "::first-line", ":after", "::slotted(x)", "::part(x1)", "::foo(1)", "::nth-fragment(2n+1)"]
COMB = [" ", ">", "+", "~"]


class Gen:
    """constructive generator: returns an abstract selector = list of compounds and combinators"""

    def __init__(self, r, nots=True):
        self.r = r
        self.nots = nots

    def simple(self, in_not=False):
        r = self.r
        k = r.random()
        if k < 0.25:
            return ("class", r.choice(CLASSES))
        if k < 0.4:
            return ("id", r.choice(IDS))
        if k < 0.6:
            return ("attr", r.choice(ATTRS), r.choice(ATTR_OPS))
        if k < 0.85 or in_not or not self.nots:
            pc = r.choice(PCLASS if not in_not else PCLASS + PCLASS[:5])
            return ("pclass", pc)
        arg = r.choice([("type", r.choice(TYPES)), ("universal",)]) if r.random() < 0.3 else self.simple(in_not=True)
        return ("not", arg)

    def compound(self, last=False):
        r = self.r
        parts = []
        k = r.random()
        if k < 0.55:
            parts.append(("type", r.choice(TYPES)))
        elif k < 0.7:
            parts.append(("universal",))
        for _ in range(r.choice([0, 0, 1, 1, 2, 3])):
            parts.append(self.simple())
        if not parts:
            parts.append(r.choice([("class", r.choice(CLASSES)), ("universal",)]))
        if last and r.random() < 0.2:
            parts.append(("pelem", r.choice(PELEM)))
        return parts

    def selector(self):
        r = self.r
        n = r.choice([1, 1, 2, 2, 3, 4])
        out = []
        for i in range(n):
            if i:
                out.append(("comb", r.choice(COMB)))
            out.append(("compound", self.compound(last=i == n - 1)))
        return out


def _plain(text):
    """canonical text without comments, whitespace runs collapsed, lower case"""
    import re

    return re.sub(r"\s+", " ", re.sub(r"/\*.*?\*/", " ", text)).strip().lower()


def specificity(sel):
    a = b = c = 0
    for kind, val in sel:
        if kind != "compound":
            continue
        for p in val:
            a2, b2, c2 = _spec_simple(p)
            a, b, c = a + a2, b + b2, c + c2
    return (0, a, b, c)


def _spec_simple(p):
    k = p[0]
    if k == "id":
        return (1, 0, 0)
    if k in ("class", "attr"):
        return (0, 1, 0)
    if k == "pclass":
        return (0, 0, 0)  # the statement's formula has no pseudo-class column
    if k in ("type", "pelem"):
        return (0, 0, 1)
    if k == "not":
        return _spec_simple(p[1])
    return (0, 0, 0)


def render(sel, r, variant):
    """variant 0 = plain; >0 = other spelling (whitespace, comments, case of :not and pseudo names)"""
    out = ""
    for kind, val in sel:
        if kind == "comb":
            if val == " ":
                out += " " if variant == 0 else r.choice(["  ", " \n ", " /*c*/ ", "\t"])
            else:
                out += f" {val} " if variant == 0 else r.choice([val, f" {val}", f"{val} ", f"  {val}  ", f" {val} /*c*/ "])
        else:
            for p in val:
                out += _render_simple(p, r, variant)
    return out


def _render_simple(p, r, variant):
    k = p[0]
    if k == "type":
        return p[1]
    if k == "universal":
        return "*"
    if k == "class":
        return "." + p[1]
    if k == "id":
        return "#" + p[1]
    if k == "attr":
        if variant and p[2]:
            op = p[2]
            for o in ("~=", "|=", "^=", "$=", "*=", "="):
                if op.startswith(o):
                    return f"[{r.choice(['', ' '])}{p[1]}{r.choice(['', ' '])}{o}{r.choice(['', ' '])}{op[len(o):]}{r.choice(['', ' '])}]"
        return f"[{p[1]}{p[2]}]"
    if k == "pclass":
        name = p[1]
        if variant and r.random() < 0.5:
            head, sep, rest = name.partition("(")
            name = head.upper() + sep + rest
        return ":" + name
    if k == "pelem":
        e = p[1]
        if variant and r.random() < 0.5:
            e = e.upper()
        return e
    if k == "not":
        n = "not" if not variant else r.choice(["not", "NOT", "Not", "n\\ot", "\\6e ot"])
        inner = _render_simple(p[1], r, 0)
        pad = "" if not variant else r.choice(["", " "])
        return f":{n}({pad}{inner}{pad})"
    raise ValueError(k)


INVALID = ["a >", "1a", "a[", ":not(", "a..b", "", " ", "a::", "#", ".", "a b >", "[=v]", "a:not()", ">", "a,, b",
           ":not(a b)", "[[a]#d=b]", "[a>x#i[b]=c]", ":not(.a)b", "div:nth-child(2n)span", ":lang(fr)*", ":not(foo(a)", "x:nth-child(foo(2n+1)", "a:not(.b)|c",
           # after a (functional) pseudo-element only a combinator may follow
           "a::part(x).b", "a::slotted(y)::after", ":not(b)::part(x):hover", "a::before.b", "a::after#i", "a::part(x)[t]"]


INVALID_SET = frozenset(INVALID)


def config(rs, run, tier):
    r = rs("config")
    return {
        "owner": r.choice(["none", "rule", "sheet", "sheet-ns"]),
        "raise": r.random() < 0.6,
        "n_ops": r.choice([1, 2, 3, 4, 6, 8, 12, 25, 40]),
        "bad_rate": r.choice([0.0, 0.15, 0.4]),
        "nots": r.random() < 0.8,
    }


class World:
    def __init__(self, cfg):
        import cssutils

        self.cu = cu = cssutils
        self.cfg = cfg
        self.stats = collections.Counter()
        self.log = simlog.install()
        cu.log.raiseExceptions = False
        o = cfg["owner"]
        self.sheet = None
        self.rule = None
        if o == "none":
            self.sl = cu.css.SelectorList("a")
        else:
            self.rule = cu.css.CSSStyleRule(selectorText="a", style="left: 0")
            self.sl = self.rule.selectorList
            if o.startswith("sheet"):
                self.sheet = cu.parseString('@namespace p "u1"; z { top: 0 }' if o == "sheet-ns" else "z { top: 0 }")
                self.sheet.add(self.rule)
        cu.log.raiseExceptions = cfg["raise"]
        self.model = ["a"]  # canonical texts
        self.spec = {"a": (0, 0, 0, 1)}

    def canon(self, text):
        """(canonical text, specificity, projection) of a stand-alone selector, or None"""
        cu = self.cu
        mode = cu.log.raiseExceptions
        cu.log.raiseExceptions = False
        try:
            k, s = lib.call(cu.css.Selector, text)
        finally:
            cu.log.raiseExceptions = mode
        if k != "ok" or not s.wellformed:
            return None
        if text in INVALID_SET and text.strip():
            # invalid by construction (the generator's list of malformed selectors): the library's own verdict is
            # not taken for granted
            self.stats["oracle"] += 1
            raise Viol("invalid_selector_rejected", "invalid-accepted", f"the malformed selector {text!r} is accepted (serialised {s.selectorText!r}, specificity {tuple(s.specificity)})")
        return (s.selectorText, tuple(s.specificity), P.p_selector(s)[2])

    def check_selector(self, sel, texts):
        """the counting / spelling / round-trip clauses for one generated selector"""
        want = specificity(sel)
        base = None
        for t in texts:
            c = self.canon(t)
            self.stats["oracle"] += 1
            if c is None:
                sig = "generated-selector-rejected"
                import re

                if re.search(r":not\(\s*:[a-z-]+\(", t.lower()):
                    sig = "functional-pseudo-in-not-rejected"
                elif ":NOT(" in t or ":Not(" in t:
                    sig = "uppercase-not-rejected"
                raise Viol("selector_accepted", sig, f"generated selector {t!r} (abstract {sel!r}) is rejected")
            if c[1] != want:
                raise Viol("specificity_by_construction", "specificity", f"{t!r}: specificity {c[1]}, by construction {want} ({sel!r})")
            if base is None:
                base = c
            else:
                self.stats["probe:spelling_variants_agree"] += 1
                if _plain(c[0]) != _plain(base[0]):
                    raise Viol("spelling_invariance", "canonical-text", f"{t!r} serialises as {c[0]!r}, the plain spelling as {base[0]!r}")
            # round trip of the serialisation
            c2 = self.canon(c[0])
            if c2 is None or c2[1] != c[1] or c2[2] != c[2]:
                raise Viol("selector_round_trip", "reparse", f"{t!r} -> {c[0]!r} reparses to {c2!r}, original {c!r}")
        for kind, val in sel[2:]:
            if kind == "compound" and any(p[0] == "not" and p[1][0] == "class" for p in val):
                self.stats["probe:class_inside_not_in_later_compound"] += 1
        for kind, val in sel:
            if kind == "compound" and any(p[0] == "not" and p[1][0] == "pclass" and "(" in p[1][1] for p in val):
                self.stats["probe:functional_pseudo_in_not"] += 1
        return base

    def live(self):
        return [s.selectorText for s in self.sl]

    def check(self, where):
        self.stats["oracle"] += 1
        k, live = lib.call(self.live)
        if k != "ok":
            raise Viol("list_total", f"{where}:iter-raises:{lib.ename(live)}", f"{live!r}")
        if live != self.model:
            raise Viol("ordered_list_model", f"{where}:model", f"after {where}: list {live} != model {self.model}")
        if self.sl.length != len(self.model):
            raise Viol("ordered_list_model", f"{where}:length", f"length {self.sl.length} != {len(self.model)}")
        for s in self.sl:
            want = self.spec.get(s.selectorText)
            if want is not None and tuple(s.specificity) != want:
                raise Viol("specificity_stable", f"{where}:specificity-changed", f"after {where}: {s.selectorText!r} has specificity {tuple(s.specificity)}, known {want}")
            if want is None:
                # a member the model has no count for: the count of a fresh selector with the same text
                c = self.canon(s.selectorText)
                if c is not None and tuple(s.specificity) != c[1]:
                    raise Viol("specificity_stable", f"{where}:specificity-of-member", f"after {where}: member {s.selectorText!r} reports specificity {tuple(s.specificity)}, a new selector with that text {c[1]}")

    def step(self, op):
        cu, sl, k = self.cu, self.sl, op["op"]
        out = "?"
        if k in ("append", "setitem"):
            texts = op["texts"]
            c = None
            if "sel" in op:
                c = self.check_selector(_unjson(op["sel"]), texts)
            else:
                c = self.canon(texts[0])
            use = texts[-1]
            if c is not None:
                c = self.canon(use)  # the list holds the spelling that was handed in (comments are kept)
            if k == "append":
                kk, v = lib.call(sl.appendSelector, use)
            else:
                if not self.model:
                    return "empty"
                idx = op["i"] % len(self.model)
                kk, v = lib.call(sl.__setitem__, idx, use)
            if kk == "exc":
                self.stats["unexpected:" + k + ":" + lib.ename(v)] += 1
                return "exc"
            if c is None:
                # rejected = not applied (the model comparison below verifies that nothing changed)
                self.stats["fault:INVALID_SELECTOR"] += 1
                self.stats["rejected_silently" if kk == "ok" else "rejected_with_exception"] += 1
                out = "rejected"
            else:
                if kk != "ok":
                    raise Viol("valid_selector_accepted", f"{k}:raises:{lib.ename(v)}", f"{k}({use!r}) raised {v!r}")
                text = c[0]
                self.spec[text] = c[1]
                if k == "append":
                    if text in self.model:
                        self.stats["probe:append_present_moves_to_end"] += 1
                    self.model = [t for t in self.model if t != text] + [text]
                else:
                    self.model[idx] = text
                self.stats["accepted"] += 1
                out = "accepted"
        elif k == "text":
            members = op["members"]
            cs = [self.canon(m) for m in members]
            target = self.rule if (self.rule is not None and op.get("via_rule")) else sl
            kk, v = lib.call(setattr, target, "selectorText", op["text"])
            if kk == "exc":
                self.stats["unexpected:text:" + lib.ename(v)] += 1
                return "exc"
            if any(c is None for c in cs):
                # rejected as a whole = list unchanged (verified by the model comparison below)
                self.stats["rejected_silently" if kk == "ok" else "rejected_with_exception"] += 1
                self.stats["probe:invalid_member_rejects_list"] += 1
                self.stats["fault:INVALID_SELECTOR"] += 1
                out = "rejected"
            else:
                if kk != "ok":
                    raise Viol("valid_list_accepted", f"text:raises:{lib.ename(v)}", f"selectorText = {op['text']!r} raised {v!r}")
                self.model = [c[0] for c in cs]
                for c in cs:
                    self.spec[c[0]] = c[1]
                self.stats["accepted"] += 1
                out = "accepted"
            if target is self.rule:
                self.sl = sl = self.rule.selectorList
        elif k == "member_text":
            # the text of one member is set through the member itself
            if not len(sl):
                return "empty"
            i = op["i"] % len(self.model)
            member = list(sl)[i]
            c = self.canon(op["text"])
            if c is not None and c[0] in self.model and self.model[i] != c[0]:
                return "would-duplicate"
            kk, v = lib.call(setattr, member, "selectorText", op["text"])
            if kk == "exc":
                self.stats["unexpected:member_text:" + lib.ename(v)] += 1
                return "exc"
            if c is None:
                self.stats["rejected_silently" if kk == "ok" else "rejected_with_exception"] += 1
                self.stats["fault:INVALID_SELECTOR"] += 1
                self.stats["probe:invalid_text_on_member"] += 1
                out = "rejected"
            else:
                if kk != "ok":
                    raise Viol("valid_list_accepted", f"member_text:raises:{lib.ename(v)}", f"member.selectorText = {op['text']!r} raised {v!r}")
                self.model[i] = c[0]
                self.spec[c[0]] = c[1]
                self.stats["accepted"] += 1
                out = "accepted"
        elif k == "detach":
            if self.sheet is None or self.rule is None or self.rule.parentStyleSheet is None:
                return "n/a"
            kk, v = lib.call(self.sheet.deleteRule, self.rule)
            self.stats["probe:detached"] += 1
            out = "detached" if kk == "ok" else "rejected"
        elif k == "attach":
            if self.sheet is None or self.rule is None or self.rule.parentStyleSheet is not None:
                return "n/a"
            kk, v = lib.call(self.sheet.add, self.rule)
            self.stats["probe:attached"] += 1
            out = "attached" if kk == "ok" else "rejected"
        elif k == "restart":
            out = self.restart()
        else:
            raise ValueError(k)
        self.stats[f"op:{k}:{out}"] += 1
        self.check(k)
        return out

    def restart(self):
        cu = self.cu
        mode = cu.log.raiseExceptions
        cu.log.raiseExceptions = False
        try:
            k, text = lib.call(lambda: self.sl.selectorText)
            if k != "ok":
                raise Viol("serialise", "selectorText:raises", f"{text!r}")
            k, sl2 = lib.call(cu.css.SelectorList, text)
        finally:
            cu.log.raiseExceptions = mode
        self.stats["oracle"] += 1
        self.stats["probe:restart"] += 1
        if k != "ok":
            raise Viol("list_round_trip", "restart:raises", f"{text!r} -> {sl2!r}")
        a = [(s.selectorText, tuple(s.specificity), P.p_selector(s)[2]) for s in self.sl]
        b = [(s.selectorText, tuple(s.specificity), P.p_selector(s)[2]) for s in sl2]
        if self.sheet is None and a != b:
            raise Viol("list_round_trip", "restart:differs", f"{text!r} reparses to {b}, live {a}")
        if self.sheet is not None and [x[:2] for x in a] != [x[:2] for x in b]:
            raise Viol("list_round_trip", "restart:differs", f"{text!r} reparses to {b}, live {a}")
        return "same"

    def finish(self):
        self.check("finish")
        self.restart()

    def state(self):
        return (self.cfg["owner"], len(self.model), tuple(sorted(set(self.spec.get(t, ()) for t in self.model)))[:6])


def _unjson(sel):
    def fix(x):
        if isinstance(x, list):
            return tuple(fix(i) for i in x)
        return x

    out = []
    for kind, val in sel:
        if kind == "compound":
            out.append((kind, [fix(p) for p in val]))
        else:
            out.append((kind, val))
    return out


def gen_op(r, w, i):
    cfg = w.cfg
    if i >= cfg["n_ops"]:
        return None
    g = Gen(r, nots=cfg["nots"])
    bad = cfg["bad_rate"]
    k = r.choice(["append", "append", "append", "append", "setitem", "text", "text", "attach", "detach", "restart", "member_text"])
    if k == "member_text":
        if r.random() < max(bad, 0.5):
            t = r.choice(INVALID + ["a[b", "#i.c[", "a:not(", "b#x.y:hover >", "#a#b .c[d", "p.q::after x", "a:not(.c"])
        else:
            t = render(g.selector(), r, r.choice([0, 1]))
        return {"op": k, "i": r.randrange(0, 8), "text": t}
    if k in ("append", "setitem"):
        if r.random() < bad:
            op = {"op": k, "texts": [r.choice(INVALID)]}
        elif r.random() < 0.25 and w.model:
            op = {"op": k, "texts": [r.choice(w.model)]}  # already present
        else:
            sel = g.selector()
            texts = [render(sel, r, 0)] + [render(sel, r, 1) for _ in range(r.choice([1, 2]))]
            op = {"op": k, "sel": sel, "texts": texts}
        if k == "setitem":
            op["i"] = r.randrange(0, 8)
        return op
    if k == "text":
        n = r.choice([1, 2, 3, 4])
        members = [render(g.selector(), r, r.choice([0, 1])) for _ in range(n)]
        if r.random() < bad:
            members[r.randrange(n)] = r.choice(INVALID)
        return {"op": k, "members": members, "text": r.choice([", ", ",", " ,\n"]).join(members), "via_rule": r.random() < 0.5}
    return {"op": k}
