"""C09 - a stylesheet stays structurally valid under any sequence of DOM edits.

World: one or two live sheets with nested @media / @page rule lists and a pool of detached rule
objects.  Workload: seeded edit histories (insert at index, ordered add, delete, replace sheet / rule
text, set encoding, namespace mapping edits, move rule objects between containers), accepted or
rejected, in both error modes.  Oracle: structural state invariants on the real DOM after every step
(I1 charset, I2 order, I3 nested kinds, I4 parent links incl. removed objects, I5 restart).
"""
import collections

from sim.gen import css as G
from sim.kit import lib
from sim.kit.runner import Viol
from sim.world import simlog, simnet

ID = "C09"
FORK = True
RUNS = {"quick": 8_000, "thorough": 160_000}
RULE = "run = 1-2 sheets + seeded edit history (all ten rule kinds, every index from -1 to len+1, sheet and nested lists, text and object arguments, both error modes); invariants I1-I5 evaluated after every step whether it was accepted or rejected"
REAL = ["cssutils/css/cssstylesheet.py", "cssutils/css/cssrule.py", "cssutils/css/cssmediarule.py", "cssutils/css/csspagerule.py", "cssutils/css/cssrulelist.py", "cssutils/util.py (_Namespaces)", "cssutils/serialize.py + parser for the restart step"]
STUBS = ["SimNet fetcher for @import targets", "SimLog log sink"]
ASSUMPTIONS = [
    "a rule object is only re-inserted while it is detached (inserting one object into two lists is not an edit the statement describes)",
    "restart compares rule kinds of rules whose own serialisation is non-empty (default preferences drop empty rules)",
]
PROBES = ["ordered_add_with_comment_first", "charset_reset_through_encoding", "rule_moved_between_containers", "rejected_add", "sheet_text_replaced", "restart", "nested_insert", "property_object_from_other_block", "self_insertion_attempted"]

TOP_ONLY = ("CHARSET_RULE", "IMPORT_RULE", "NAMESPACE_RULE")
BODY = ("STYLE_RULE", "MEDIA_RULE", "PAGE_RULE", "FONT_FACE_RULE")


def config(rs, run, tier):
    r = rs("config")
    c = rs("content")
    return {
        "n_ops": r.choice([1, 2, 3, 4, 5, 6, 8, 8, 15, 40, 80]),
        "raise": r.random() < 0.5,
        "bad_rate": r.choice([0.0, 0.3, 0.3, 0.6]),
        "sheets": [_sheet_text(c) for _ in range(r.choice([1, 1, 2]))],
    }


def _sheet_text(r):
    parts = []
    if r.random() < 0.3:
        parts.append('@charset "utf-8";')
    if r.random() < 0.35:
        parts.append(r.choice(["/* first */", "@x-head y;", "/* first */ @x-head y;"]))
    for _ in range(r.choice([0, 0, 1, 2])):
        parts.append(G.import_rule(r, hrefs=("a.css", "b.css")))
        if r.random() < 0.25:
            parts.append(r.choice(["@x-between y;", "/* between */"]))  # allowed anywhere, also between @import rules
    if r.random() < 0.3:
        parts.append(r.choice(["/* mid */", "@x-mid y;"]))
    for _ in range(r.choice([0, 0, 1, 2])):
        parts.append(G.namespace_rule(r))
    for _ in range(r.randrange(0, 5)):
        parts.append(G.rule(r, r.choice(["style", "style", "media", "page", "fontface", "comment", "unknown", "variables"])))
    return "\n".join(parts)


def flat(container, depth=0):
    """(rule, container, depth) for every rule reachable from container"""
    out = []
    for r in container.cssRules:
        out.append((r, container, depth))
        if r.typeString in ("MEDIA_RULE", "PAGE_RULE"):
            out.extend(flat(r, depth + 1))
    return out


class World:
    def __init__(self, cfg):
        import cssutils

        self.cu = cu = cssutils
        self.cfg = cfg
        self.stats = collections.Counter()
        self.log = simlog.install()
        self.net = simnet.SimNet({"http://h/a.css": {"text": "i { top: 0 }", "enc": None}, "http://h/b.css": {"text": "@import 'a.css'; j { left: 0 }", "enc": None}}, self.stats)
        cu.log.raiseExceptions = False
        self.sheets = [cu.CSSParser(fetcher=self.net.fetch).parseString(t, href="http://h/root.css") for t in cfg["sheets"]]
        cu.log.raiseExceptions = cfg["raise"]
        self.pool = []  # detached rule objects made by the harness
        self.removed = []  # objects the harness saw removed or replaced
        self.removed_styles = []  # declaration blocks replaced through their rule
        self.check("init")

    # ------------------------------------------------------------------ containers
    def container(self, spec):
        s = self.sheets[spec[1] % len(self.sheets)]
        if spec[0] == "sheet":
            return s
        kind = "MEDIA_RULE" if spec[0] == "media" else "PAGE_RULE"
        pop = [r for r, _, _ in flat(s) if r.typeString == kind]
        return pop[spec[2] % len(pop)] if pop else None

    def contained(self, everywhere=False):
        """ids of rules held by a rule list reachable from the sheets (everywhere=True: also by the
        lists of detached container rules the harness knows)"""
        ids = set()
        for s in self.sheets:
            for r, _, _ in flat(s):
                ids.add(id(r))
        if everywhere:
            for o in self.pool + [x for x, _ in self.removed]:
                if hasattr(o, "cssRules"):
                    for r, _, _ in flat(o):
                        ids.add(id(r))
        return ids

    # ------------------------------------------------------------------ invariants
    def check(self, where):
        self.stats["oracle"] += 1
        for si, s in enumerate(self.sheets):
            top = [r.typeString for r in s.cssRules]
            # I1
            if top.count("CHARSET_RULE") > 1 or ("CHARSET_RULE" in top and top[0] != "CHARSET_RULE"):
                raise Viol("I1_charset_first_and_only", f"{where}", f"after {where}: sheet {si} rule kinds {top}")
            # I2
            last_import = max([i for i, t in enumerate(top) if t == "IMPORT_RULE"], default=-1)
            first_ns = min([i for i, t in enumerate(top) if t == "NAMESPACE_RULE"], default=len(top))
            last_ns = max([i for i, t in enumerate(top) if t == "NAMESPACE_RULE"], default=-1)
            first_body = min([i for i, t in enumerate(top) if t in BODY], default=len(top))
            if last_import > first_ns or last_import > first_body or last_ns > first_body:
                raise Viol("I2_import_namespace_body_order", f"{where}", f"after {where}: sheet {si} rule kinds {top}")
            # I3 + I4
            for r, c, depth in flat(s):
                t = r.typeString
                if depth > 0:
                    ct = c.typeString
                    bad = ("CHARSET_RULE", "IMPORT_RULE", "NAMESPACE_RULE", "FONT_FACE_RULE", "MARGIN_RULE", "VARIABLES_RULE") if ct == "MEDIA_RULE" else ("CHARSET_RULE", "IMPORT_RULE", "NAMESPACE_RULE", "FONT_FACE_RULE", "PAGE_RULE", "MEDIA_RULE", "STYLE_RULE")
                    if t in bad:
                        raise Viol("I3_nested_kinds", f"{where}:{t}-in-{ct}", f"after {where}: {t} inside {ct}")
                    if r.parentRule is not c:
                        raise Viol("I4_parent_links", f"{where}:nested-parentRule", f"after {where}: {t} in {ct} has parentRule {r.parentRule!r}")
                    ps = r.parentStyleSheet
                    if ps is not s:
                        raise Viol("I4_parent_links", f"{where}:nested-parentStyleSheet", f"after {where}: {t} at depth {depth} has parentStyleSheet {ps!r}")
                else:
                    if r.parentStyleSheet is not s or r.parentRule is not None:
                        raise Viol("I4_parent_links", f"{where}:top-level", f"after {where}: top-level {t} of sheet {si} has parentStyleSheet={r.parentStyleSheet!r} parentRule={r.parentRule!r}")
                st = getattr(r, "style", None)
                if st is not None:
                    if st.parentRule is not r:
                        raise Viol("I4_parent_links", f"{where}:style.parentRule", f"after {where}: style of {t} has parentRule {st.parentRule!r}")
                    for p in st.getProperties(all=True):
                        if p.parent is not st:
                            raise Viol("I4_parent_links", f"{where}:property.parent", f"after {where}: property {p.name} of {t} has parent {p.parent!r}")
                if t == "IMPORT_RULE" and r.styleSheet is not None and r.styleSheet.ownerRule is not r:
                    raise Viol("I4_parent_links", f"{where}:import.ownerRule", f"after {where}: imported sheet's ownerRule is {r.styleSheet.ownerRule!r}")
        for st_, how in self.removed_styles:
            if st_.parentRule is not None and getattr(st_.parentRule, "style", None) is not st_:
                raise Viol("I4_removed_objects_name_none", f"{how}:style", f"after {where}: a declaration block replaced by {how} still names its former rule as parentRule")
        inlists = self.contained(everywhere=True)
        for obj, how in self.removed:
            if id(obj) in inlists:
                continue  # re-inserted somewhere (possibly into a detached container): judged there
            if obj.parentStyleSheet is not None or obj.parentRule is not None:
                raise Viol("I4_removed_objects_name_none", f"{how}", f"after {where}: a {obj.typeString} removed by {how} still has parentStyleSheet={obj.parentStyleSheet!r} parentRule={obj.parentRule!r}")

    def restart(self, si):
        """I5: serialise -> drop everything -> reparse in log mode"""
        cu = self.cu
        s = self.sheets[si % len(self.sheets)]
        mode = cu.log.raiseExceptions
        cu.log.raiseExceptions = False
        try:
            k, b = lib.call(lambda: s.cssText)
            if k != "ok":
                self.stats["unexpected:cssText:" + lib.ename(b)] += 1
                return "noser"
            k, s2 = lib.call(lambda: cu.CSSParser(fetcher=self.net.fetch).parseString(b, href="http://h/root.css"))
            if k != "ok":
                self.stats["unexpected:reparse:" + lib.ename(s2)] += 1
                return "noparse"

            def kinds(c):
                out = []
                rules = list(c.cssRules)
                for i, r in enumerate(rules):
                    if r.typeString == "NAMESPACE_RULE" and any(x.typeString == "NAMESPACE_RULE" and x.prefix == r.prefix for x in rules[i + 1 :]):
                        continue  # a later rule binds the same prefix: the parser keeps one per prefix (no ordering loss)
                    kk, txt = lib.call(lambda: r.cssText)
                    if kk == "ok" and not txt:
                        continue
                    if r.typeString == "PAGE_RULE":
                        # margin boxes of one name are merged by the @page parser: not an ordering loss
                        sub = tuple(sorted({str(lib.call(lambda: m.margin)[1]).lower() for m in r.cssRules if lib.call(lambda: m.cssText)[1]}))
                    else:
                        sub = tuple(kinds(r)) if r.typeString == "MEDIA_RULE" else ()
                    out.append((r.typeString, sub))
                return out

            a, b2 = kinds(s), kinds(s2)
        finally:
            cu.log.raiseExceptions = mode
        self.stats["oracle"] += 1
        self.stats["probe:restart"] += 1
        prefixes = [r.prefix for r in s.cssRules if r.typeString == "NAMESPACE_RULE"]
        if len(set(prefixes)) < len(prefixes):
            # two @namespace rules bind one prefix (reachable through the text / prefix setter of a rule, C15's
            # territory): the parser merges them into the place of the first one, which moves that rule relative to
            # comments in between - no rule is lost to an ordering error: compared as multisets
            a, b2 = sorted(a), sorted(b2)
        if a != b2:
            raise Viol("I5_restart_keeps_rules", "restart:kinds", f"live sheet kinds {a} but its serialisation {b!r} reparses to {b2}")
        return "same"

    # ------------------------------------------------------------------ operations
    def step(self, op):
        cu = self.cu
        k = op["op"]
        out = "?"
        if k == "make":
            cls = {"style": cu.css.CSSStyleRule, "media": cu.css.CSSMediaRule, "page": cu.css.CSSPageRule, "import": cu.css.CSSImportRule, "namespace": cu.css.CSSNamespaceRule, "charset": cu.css.CSSCharsetRule, "fontface": cu.css.CSSFontFaceRule, "comment": cu.css.CSSComment, "unknown": cu.css.CSSUnknownRule, "variables": cu.css.CSSVariablesRule}[op["kind"]]
            kk, obj = lib.call(cls)
            if kk == "ok":
                k2, v = lib.call(setattr, obj, "cssText", op["text"])
                if k2 == "ok":
                    self.pool.append(obj)
                    out = "made"
                else:
                    out = "bad"
        elif k in ("insert", "add"):
            c = self.container(op["c"])
            if c is None:
                return "nocontainer"
            if "handle" in op:
                held = self.contained(everywhere=True)
                cands = [o for o in self.pool + [x for x, _ in self.removed] if id(o) not in held]
                if not cands:
                    return "nohandle"
                arg = cands[op["handle"] % len(cands)]
                was_removed = any(arg is x for x, _ in self.removed)
            else:
                arg = op["text"]
            first_kind = c.cssRules[0].typeString if len(c.cssRules) else None
            n0 = len(c.cssRules)
            if k == "add":
                kk, v = lib.call(c.add, arg)
            else:
                idx = op["index"]
                idx = -1 if idx < 0 else idx % (n0 + 2)
                if op.get("inorder") and op["c"][0] == "sheet":
                    # documented: a proper place is looked for, the index is ignored
                    kk, v = lib.call(c.insertRule, arg, idx % (n0 + 1), True)
                else:
                    kk, v = lib.call(c.insertRule, arg, idx)
            accepted = kk == "ok" and len(c.cssRules) > n0
            if accepted:
                self.stats["accepted"] += 1
                if "handle" in op:
                    self.stats["probe:rule_moved_between_containers"] += int(was_removed)
                if op["c"][0] != "sheet":
                    self.stats["probe:nested_insert"] += 1
                if k == "add" and first_kind in ("COMMENT", "UNKNOWN_RULE"):
                    self.stats["probe:ordered_add_with_comment_first"] += 1
            else:
                self.stats["probe:rejected_add"] += 1
                self.stats["fault:REJECTED_" + (lib.ename(v) if kk != "ok" else "logged")] += 1
            out = "accepted" if accepted else ("rejected:" + lib.ename(v) if kk != "ok" else "ignored")
        elif k == "delete":
            c = self.container(op["c"])
            if c is None:
                return "nocontainer"
            n0 = len(c.cssRules)
            idx = op["index"]
            idx = -1 if idx < 0 else idx % (n0 + 2)
            victim = None
            try:
                victim = c.cssRules[idx]
            except IndexError:
                pass
            kk, v = lib.call(c.deleteRule, idx)
            if kk == "ok" and len(c.cssRules) < n0 and victim is not None:
                self.removed.append((victim, "deleteRule"))
                self.stats["accepted"] += 1
                out = "deleted"
            else:
                self.stats["fault:REJECTED_" + (lib.ename(v) if kk != "ok" else "logged")] += 1
                out = "rejected:" + lib.ename(v) if kk != "ok" else "ignored"
        elif k == "sheet_text":
            s = self.sheets[op["s"] % len(self.sheets)]
            old = list(s.cssRules)
            kk, v = lib.call(setattr, s, "cssText", op["text"])
            new = list(s.cssRules)
            if kk == "ok" and not (len(old) == len(new) and all(a is b for a, b in zip(old, new))):
                for o in old:
                    self.removed.append((o, "sheet.cssText"))
                self.stats["accepted"] += 1
                self.stats["probe:sheet_text_replaced"] += 1
                out = "replaced"
            else:
                out = "rejected:" + lib.ename(v) if kk != "ok" else "kept"
        elif k == "rule_text":
            s = self.sheets[op["s"] % len(self.sheets)]
            rules = [r for r, _, _ in flat(s)]
            if not rules:
                return "norule"
            r = rules[op["i"] % len(rules)]
            oldsub = list(r.cssRules) if hasattr(r, "cssRules") else []
            oldstyle = getattr(r, "style", None)
            kk, v = lib.call(setattr, r, "cssText", op["text"])
            if kk == "ok" and oldstyle is not None and getattr(r, "style", None) is not oldstyle:
                self.removed_styles.append((oldstyle, "rule.cssText"))
            if kk == "ok":
                newsub = list(r.cssRules) if hasattr(r, "cssRules") else []
                for o in oldsub:
                    if not any(o is n for n in newsub):
                        self.removed.append((o, "rule.cssText"))
                self.stats["accepted"] += 1
                out = "set"
            else:
                out = "rejected:" + lib.ename(v)
        elif k == "insert_self":
            # a rule holding rules is asked to hold itself (or an ancestor): must be refused
            s = self.sheets[op["s"] % len(self.sheets)]
            holders = [r for r, _, _ in flat(s) if r.typeString in ("MEDIA_RULE",)]
            if not holders:
                return "noholder"
            inner = holders[op["i"] % len(holders)]
            outer = inner
            for _ in range(op["up"]):
                if outer.parentRule is not None:
                    outer = outer.parentRule
            kk, v = lib.call(inner.insertRule, outer)
            self.stats["probe:self_insertion_attempted"] += 1
            if kk == "ok" and any(x is outer for x in inner.cssRules):
                raise Viol("I4_parent_links", "insert_self:accepted", f"an @media rule accepted {'itself' if outer is inner else 'its ancestor'} as a nested rule")
            out = "rejected" if kk != "ok" else "ignored"
        elif k == "rule_style":
            s = self.sheets[op["s"] % len(self.sheets)]
            rules = [r for r, _, _ in flat(s) if getattr(r, "style", None) is not None]
            if not rules:
                return "norule"
            r_ = rules[op["i"] % len(rules)]
            old = r_.style
            kk, v = lib.call(setattr, r_, "style", op["text"])
            if kk == "ok" and r_.style is not old:
                self.removed_styles.append((old, "rule.style"))
                self.stats["accepted"] += 1
            out = "set" if kk == "ok" else "rejected:" + lib.ename(v)
        elif k in ("decl_text", "decl_setprop"):
            s = self.sheets[op["s"] % len(self.sheets)]
            styles = [r.style for r, _, _ in flat(s) if getattr(r, "style", None) is not None]
            if not styles:
                return "nostyle"
            st = styles[op["i"] % len(styles)]
            if k == "decl_text":
                kk, v = lib.call(setattr, st, "cssText", op["text"])
            else:
                # a Property object that belonged to another (discarded) declaration block
                kd, donor = lib.call(lambda: cu.css.CSSStyleDeclaration(cssText=op["text"]))
                props = donor.getProperties(all=True) if kd == "ok" else []
                if not props:
                    return "noprop"
                kk, v = lib.call(st.setProperty, props[op["j"] % len(props)])
                self.stats["probe:property_object_from_other_block"] += 1
            if kk == "ok":
                self.stats["accepted"] += 1
            out = "set" if kk == "ok" else "rejected:" + lib.ename(v)
        elif k == "encoding":
            s = self.sheets[op["s"] % len(self.sheets)]
            had = len(s.cssRules) and s.cssRules[0].typeString == "CHARSET_RULE"
            old0 = s.cssRules[0] if had else None
            kk, v = lib.call(setattr, s, "encoding", op["value"])
            if kk == "ok":
                self.stats["accepted"] += 1
                if had:
                    self.stats["probe:charset_reset_through_encoding"] += 1
                    if not (len(s.cssRules) and s.cssRules[0] is old0):
                        self.removed.append((old0, "encoding"))
            elif kk == "exc":
                self.stats["unexpected:encoding:" + lib.ename(v)] += 1
            out = "set" if kk == "ok" else "rejected:" + lib.ename(v)
        elif k in ("ns_set", "ns_del"):
            s = self.sheets[op["s"] % len(self.sheets)]
            before = [r for r in s.cssRules if r.typeString == "NAMESPACE_RULE"]
            if k == "ns_set":
                kk, v = lib.call(s.namespaces.__setitem__, op["prefix"], op["uri"])
            else:
                kk, v = lib.call(s.namespaces.__delitem__, op["prefix"])
            after = list(s.cssRules)
            for o in before:
                if not any(o is n for n in after):
                    self.removed.append((o, k))
            if kk == "ok":
                self.stats["accepted"] += 1
            elif kk == "exc":
                self.stats["unexpected:" + k + ":" + lib.ename(v)] += 1
            out = "ok" if kk == "ok" else "rejected:" + lib.ename(v)
        elif k == "restart":
            out = self.restart(op["s"])
        else:
            raise ValueError(k)
        self.stats[f"op:{k}:{out.split(':')[0]}"] += 1
        self.check(k)
        return out

    def finish(self):
        for i in range(len(self.sheets)):
            self.restart(i)

    def state(self):
        return tuple(tuple(r.typeString[:3] + str(d) for r, _, d in flat(s))[:14] for s in self.sheets)


def _container(r):
    k = r.random()
    if k < 0.6:
        return ["sheet", r.randrange(0, 2)]
    if k < 0.85:
        return ["media", r.randrange(0, 2), r.randrange(0, 4)]
    return ["page", r.randrange(0, 2), r.randrange(0, 4)]


def _rule_text(r, bad):
    if r.random() < bad:
        return r.choice(["a { color: red", "{ }", "a,, b { }", "un|declared { }", "@media { }", "@page :bogus { }", "a { } b { }", "@import;", '@charset utf-8;', "@namespace;", "", "@top-left { content: 'x' }"])
    # (the kinds the ordering invariants are about - and the ones allowed anywhere between them - come up more often)
    kind = r.choice(G.KINDS + ["import", "import", "namespace", "namespace", "unknown", "unknown", "comment", "charset"])
    if kind == "import":
        return G.import_rule(r, hrefs=("a.css", "b.css"))
    return G.rule(r, kind)


def gen_op(r, w, i):
    cfg = w.cfg
    if i >= cfg["n_ops"]:
        return None
    bad = cfg["bad_rate"]
    k = r.choice(["insert", "insert", "insert", "add", "add", "delete", "delete", "sheet_text", "rule_text", "encoding", "ns_set", "ns_del", "make", "move", "move", "restart", "decl", "insert_self", "rule_style"])
    if k == "insert_self":
        return {"op": k, "s": r.randrange(0, 2), "i": r.randrange(0, 6), "up": r.choice([0, 0, 1, 2])}
    if k == "rule_style":
        return {"op": k, "s": r.randrange(0, 2), "i": r.randrange(0, 12), "text": G.decl_block(r, n=r.choice([1, 2]), bad=bad)}
    if k == "decl":
        return {"op": r.choice(["decl_text", "decl_setprop"]), "s": r.randrange(0, 2), "i": r.randrange(0, 12), "j": r.randrange(0, 4), "text": G.decl_block(r, n=r.choice([1, 2, 3]), bad=bad)}
    if k == "make":
        kind = r.choice(["style", "media", "page", "import", "namespace", "charset", "fontface", "comment", "unknown", "variables"])
        return {"op": "make", "kind": kind, "text": G.import_rule(r, hrefs=("a.css",)) if kind == "import" else G.rule(r, kind)}
    if k in ("insert", "add"):
        op = {"op": k, "c": _container(r), "text": _rule_text(r, bad)}
        if k == "insert":
            op["index"] = r.randrange(-1, 8)
            op["inorder"] = r.random() < 0.15
        return op
    if k == "move":
        op = {"op": r.choice(["insert", "add"]), "c": _container(r), "handle": r.randrange(0, 8)}
        if op["op"] == "insert":
            op["index"] = r.randrange(-1, 8)
        return op
    if k == "delete":
        return {"op": k, "c": _container(r), "index": r.randrange(-1, 8)}
    if k == "sheet_text":
        t = _sheet_text(r) if r.random() > bad else r.choice(["a { } @import 'x.css';", '/*c*/ @charset "utf-8";', "@namespace p 'u'; @import 'a.css';", "a {", "un|d { }", "@media print { @import 'a.css'; }", "a { color: ( } b { }"])
        return {"op": k, "s": r.randrange(0, 2), "text": t}
    if k == "rule_text":
        return {"op": k, "s": r.randrange(0, 2), "i": r.randrange(0, 12), "text": _rule_text(r, bad)}
    if k == "encoding":
        return {"op": k, "s": r.randrange(0, 2), "value": r.choice(["utf-8", "ascii", "iso-8859-1", None, "", "x-unknown-codec" if r.random() < bad else "utf-16"])}
    if k == "ns_set":
        return {"op": k, "s": r.randrange(0, 2), "prefix": r.choice(["p", "q", "", "r"]), "uri": r.choice(["u0", "u1", "u2", "u3"])}
    if k == "ns_del":
        return {"op": k, "s": r.randrange(0, 2), "prefix": r.choice(["p", "q", "", "r", "zz"])}
    return {"op": "restart", "s": r.randrange(0, 2)}
