"""C12 - no hidden state: history-independent results, global modes restored.

World: the whole process (a pristine forked interpreter per run), SimNet, scratch files, SimLog.
Workload: an arbitrary prefix of library calls incl. malformed input and injected faults
(undecodable bytes, failing / raising / re-entrant fetchers, missing files, raising parsers, rejected
edits).  Oracles: (1) the library-wide modes before == after every parse-family call, whether it
returned or raised; (2) a fixed probe battery gives exactly the output it gave in the pristine process;
(3) the i-th use of a parser object equals a fresh parser; (4) a re-entrant fetcher changes nothing.
"""
import collections
import os
import shutil
import tempfile

from sim.gen import css as G
from sim.kit import lib
from sim.kit.runner import Viol
from sim.obs import project as P
from sim.world import simlog, simnet

ID = "C12"
FORK = True
RUNS = {"quick": 5000, "thorough": 100_000}
RULE = "run = seeded prefix of 1..40 library calls with injected faults, each parse-family call bracketed by a global-mode snapshot, probe battery compared with the pristine baseline at seeded points and at the end"
REAL = ["cssutils/* (parse, prodparser, tokenize2, errorhandler, serialize, profiles, script, css/*, stylesheets/*)", "encutils", "codecs machinery"]
STUBS = ["SimNet fetcher / fake urllib.request.urlopen", "scratch files in a per-run temp dir", "SimLog log sink"]
ASSUMPTIONS = ["single-threaded use (README: cssutils is thread unsafe)", "log message texts are not compared, only levels and counts"]
PROBES = ["savedTokens_nonempty_at_op_end", "pushback_nonempty_at_op_end", "exception_through_nested_import", "parser_built_under_other_mode", "parse_raised", "battery_after_fault", "live_fetcher_reused_after_documents_changed", "member_of_parsed_container_edited", "object_reused_after_rejected_text", "reentered_same_parser_object"]

UNDECODABLE = ["fffe61", "ff", "c328", "61ff62", "efbbbfff", "40636861727365742022617363696922 3bff".replace(" ", "")]

BATTERY = [
    ("style", "a { color: red }"),
    ("media-commas", "@media print, screen and (min-width: 10px), tv { a { left: 1px } }"),
    ("functions", "a { width: calc(1px + (2px * 3)); background: url(x.png) rgb(1,2,3); content: counter(c) attr(t) }"),
    ("namespaces", '@namespace p "u"; @namespace "d"; p|a, *|b, |c, e { left: 1px }'),
    ("variables", "@variables { c: red } a { color: var(c) }"),
    ("page", '@page :first { margin: 1cm; @top-left { content: "x" } } @media print { a { left: 0 } @page { margin: 0 } }'),
    ("invalid-value", "a { color: 1px; left: red; x-y: z }"),
    ("malformed", "a { color: red; ;; b: ( } c {d:e} @x; } f { g: h"),
    ("comments", "/*a*/ a /*b*/ { /*c*/ color /*d*/ : /*e*/ red /*f*/ ; /*g*/ }"),
    ("import-in-text", '@import "i.css" print; a { left: 1px }'),
]


def config(rs, run, tier):
    r = rs("config")
    return {
        "n_ops": r.choice([1, 2, 3, 4, 6, 8, 12, 20, 40]),
        "fault_rate": r.choice([0.0, 0.25, 0.25, 0.6]),
        "bad_rate": r.choice([0.0, 0.3, 0.7]),
        "start_mode": r.choice([True, True, False]),
        "kinds": sorted(r.sample(OPKINDS, r.randrange(3, len(OPKINDS) + 1))),
    }


OPKINDS = ["parse_string", "parse_bytes", "parse_style", "parse_file", "parse_url", "parse_import", "new_parser", "standalone", "dom_edit", "prefs", "set_serializer", "combine", "profile_pair", "flip_mode", "battery", "reuse", "parse_live", "parse_live", "reuse_object", "reuse_object"]


class World:
    def __init__(self, cfg):
        import cssutils

        self.cu = cssutils
        self.cfg = cfg
        self.stats = collections.Counter()
        self.log = simlog.install()
        self.tmp = None
        self.parsers = []
        self.sheet = None
        self.baseline = self.battery()
        cssutils.log.raiseExceptions = cfg["start_mode"]
        self.had_fault = False

    # ------------------------------------------------------------------ battery
    def battery(self):
        cu = self.cu
        user_mode = cu.log.raiseExceptions
        cu.log.raiseExceptions = True
        out = []
        try:
            for name, text in BATTERY:
                m = self.log.mark()
                net = simnet.SimNet({"http://h/i.css": {"text": "z { left: 2px }", "enc": None, "http": None}})
                k, v = lib.call(lambda: cu.CSSParser(fetcher=net.fetch).parseString(text, href="http://h/r.css"))
                if k == "ok":
                    k2, b = lib.call(lambda: v.cssText)
                    out.append((name, k, P.p_sheet(v), k2, b if k2 == "ok" else lib.ename(b), self.log.since(m)))
                else:
                    out.append((name, k, lib.ename(v), self.log.since(m)))
            m = self.log.mark()
            for name, f in (
                ("PropertyValue", lambda: cu.css.PropertyValue("1px solid red").cssText),
                ("MediaList", lambda: cu.stylesheets.MediaList("print, screen and (color)").mediaText),
                ("MediaQuery", lambda: cu.stylesheets.MediaQuery("only screen and (min-width: 1px)").mediaText),
                ("Selector", lambda: (cu.css.Selector("a > b.c").selectorText, cu.css.Selector("a > b.c").specificity)),
                ("SelectorList", lambda: cu.css.SelectorList("a, b > c").selectorText),
                ("parseStyle", lambda: cu.parseStyle("color: red; top: 1px; x").cssText),
                ("Property", lambda: cu.css.Property("color", "red", "important").cssText),
            ):
                k, v = lib.call(f)
                out.append((name, k, v if k == "ok" else lib.ename(v)))
            out.append(("standalone-log", self.log.since(m)))
            # an edit that must raise in raise mode and must not in log mode
            for mode in (True, False):
                cu.log.raiseExceptions = mode
                rule = cu.css.CSSStyleRule()
                m = self.log.mark()
                k, v = lib.call(setattr, rule, "selectorText", ",")
                out.append((f"edit-mode-{mode}", k, lib.ename(v) if k != "ok" else None, self.log.since(m)))
            cu.log.raiseExceptions = True
            # default serializer preferences give the default bytes
            s = cu.parseString("a{color:red;left:1px}/*c*/@media print{b{top:0}}")
            out.append(("default-bytes", s.cssText))
        finally:
            cu.log.raiseExceptions = user_mode
        return out

    def check_battery(self, where):
        now = self.battery()
        self.stats["oracle"] += 1
        if self.had_fault:
            self.stats["probe:battery_after_fault"] += 1
        for a, b in zip(self.baseline, now):
            if a != b:
                raise Viol("battery_equals_pristine", f"battery:{a[0]}", f"{where}: probe {a[0]!r} gave {b!r}, pristine process gave {a!r}")

    # ------------------------------------------------------------------ helpers
    def scratch(self):
        if self.tmp is None:
            self.tmp = tempfile.mkdtemp(prefix="simfs-c12-")
        return self.tmp

    def close(self):
        if self.tmp:
            shutil.rmtree(self.tmp, ignore_errors=True)

    def bracket(self, name, fn):
        """oracle 1 around a parse-family call"""
        before = lib.global_modes()
        k, v = lib.call(fn)
        after = lib.global_modes()
        self.stats["oracle"] += 1
        outcome = "ok" if k == "ok" else lib.ename(v)
        if k != "ok":
            self.stats["probe:parse_raised"] += 1
            self.had_fault = True
        self.stats[f"op:{name}:{outcome}"] += 1
        changed = lib.diff_modes(before, after)
        if changed:
            raise Viol("modes_restored", f"modes:{name}:{'returned' if k == 'ok' else lib.ename(v)}:{'+'.join(changed)}", f"{name} ({outcome}) changed {changed}: before={dict(before).get(changed[0])!r} after={dict(after).get(changed[0])!r}")
        if k == "ok":
            self.stats["accepted"] += 1
        self._whitebox()
        return k, v

    def _whitebox(self):
        # reach statistics only (tolerant of renamed internals); never an oracle
        try:
            from cssutils import prodparser

            if prodparser.savedTokens:
                self.stats["probe:savedTokens_nonempty_at_op_end"] += 1
            pushed = prodparser.tokenizer._pushed
            if not isinstance(pushed, list) or pushed:
                self.stats["probe:pushback_nonempty_at_op_end"] += 1
        except Exception:
            pass

    def parser_for(self, op):
        cu = self.cu
        via = op.get("via", "fresh")
        if via.startswith("p") and self.parsers:
            return self.parsers[int(via[1:]) % len(self.parsers)], True
        return cu.CSSParser(raiseExceptions=op.get("raise", False), parseComments=op.get("comments", True), validate=op.get("validate", True)), False

    def result_of(self, k, v):
        if k != "ok":
            return (k, lib.ename(v))
        if v is None:
            return ("ok", None)
        k2, b = lib.call(lambda: v.cssText)
        proj = P.p_sheet(v) if hasattr(v, "cssRules") else P.p_style(v)

        def validity(c):
            # what the parser's validate option decided: part of the result
            out = []
            for r in getattr(c, "cssRules", []):
                st = getattr(r, "style", None)
                if st is not None:
                    out.append((st.validating, tuple(p.valid for p in st.getProperties(all=True))))
                if hasattr(r, "cssRules"):
                    out.extend(validity(r))
            return out

        val = (getattr(v, "validating", None), tuple(validity(v)) if hasattr(v, "cssRules") else tuple(p.valid for p in v.getProperties(all=True)))
        return ("ok", proj, k2, b if k2 == "ok" else lib.ename(b), val)

    def live_fetch(self, url):
        """one stable callable given to long-lived parsers; what it answers changes between uses"""
        return self.live_net.fetch(url)

    # ------------------------------------------------------------------ operations
    def step(self, op):
        cu = self.cu
        k = op["op"]
        if k == "parse_live":
            # a parser built once with a fetcher, used again after the fetched documents changed
            self.live_net = simnet.SimNet(op["net"], self.stats)
            if not self.parsers:
                p0 = cu.CSSParser(raiseExceptions=False, parseComments=True, validate=True)
                p0._built_mode, p0._opts, p0._uses = cu.log.raiseExceptions, (False, True, True), 1
                self.parsers.append(p0)
            parser = self.parsers[int(op["via"][1:]) % len(self.parsers)]
            if not getattr(parser, "_live", False):
                parser.setFetcher(self.live_fetch)
                parser._live = True
            else:
                self.stats["probe:live_fetcher_reused_after_documents_changed"] += 1
            kk, v = self.bracket(k, lambda: parser.parseString(op["text"], href="http://h/root.css"))
            fresh = cu.CSSParser(raiseExceptions=parser._opts[0], parseComments=parser._opts[1], validate=parser._opts[2], fetcher=self.live_fetch)
            k2, v2 = lib.call(lambda: fresh.parseString(op["text"], href="http://h/root.css"))
            self.stats["oracle"] += 1
            a, b = self.result_of(kk, v), self.result_of(k2, v2)
            if a != b:
                raise Viol("parser_reuse", "reuse:live-fetcher", f"use #{parser._uses} of a parser gave {a!r}, a fresh parser with the same fetcher {b!r} on {op['text']!r} with documents {op['net']!r}")
            parser._uses += 1
            return "ok" if kk == "ok" else lib.ename(v)
        if k in ("parse_string", "parse_bytes"):
            data = op["text"] if k == "parse_string" else bytes.fromhex(op["hex"])
            parser, reused = self.parser_for(op)
            net = simnet.SimNet(op.get("net", {}), self.stats)
            if op.get("net") is not None:
                parser.setFetcher(net.fetch)
                parser._live = False
            if reused and parser._built_mode != cu.log.raiseExceptions:
                self.stats["probe:parser_built_under_other_mode"] += 1
            kk, v = self.bracket(k, lambda: parser.parseString(data, encoding=op.get("encoding"), href=op.get("href")))
            if kk != "ok" and len(net.log) >= 2:
                self.stats["probe:exception_through_nested_import"] += 1
            if kk == "ok" and k == "parse_string" and op.get("keep"):
                self.sheet = v
            if reused and op.get("net") is None:
                # oracle 3: a reused parser object behaves like a fresh one with the same options
                fresh = cu.CSSParser(raiseExceptions=parser._opts[0], parseComments=parser._opts[1], validate=parser._opts[2])
                k2, v2 = lib.call(lambda: fresh.parseString(data, encoding=op.get("encoding"), href=op.get("href")))
                self.stats["oracle"] += 1
                a, b = self.result_of(kk, v), self.result_of(k2, v2)
                if a != b:
                    raise Viol("parser_reuse", "reuse:parseString", f"use #{parser._uses} of a parser gave {a!r}, a fresh parser {b!r} on {data!r}")
                parser._uses += 1
            return "ok" if kk == "ok" else lib.ename(v)
        if k == "parse_style":
            data = op["text"] if "text" in op else bytes.fromhex(op["hex"])
            parser, reused = self.parser_for(op)
            kw = {} if op.get("validate") is None else {"validate": op["validate"]}
            kk, v = self.bracket(k, lambda: parser.parseStyle(data, **kw))
            if reused:
                # oracle 3 for style attributes: per-call arguments do not stick to the parser
                fresh = cu.CSSParser(raiseExceptions=parser._opts[0], parseComments=parser._opts[1], validate=parser._opts[2])
                k2, v2 = lib.call(lambda: fresh.parseStyle(data, **kw))
                self.stats["oracle"] += 1
                a, b = self.result_of(kk, v), self.result_of(k2, v2)
                if a != b:
                    raise Viol("parser_reuse", "reuse:parseStyle", f"use #{parser._uses} of a parser gave {a!r}, a fresh parser {b!r} on {data!r} {kw}")
                parser._uses += 1
            return "ok" if kk == "ok" else lib.ename(v)
        if k == "parse_file":
            path = os.path.join(self.scratch(), op["name"])
            if op.get("exists", True):
                with open(path, "wb") as f:
                    f.write(bytes.fromhex(op["hex"]))
            else:
                self.stats["fault:MISSING_FILE"] += 1
            parser, reused = self.parser_for(op)
            kk, v = self.bracket(k, lambda: parser.parseFile(path, encoding=op.get("encoding")))
            return "ok" if kk == "ok" else lib.ename(v)
        if k == "parse_url":
            net = simnet.SimNet(op["net"], self.stats)
            parser, reused = self.parser_for(op)
            if op.get("default_fetcher"):
                parser.setFetcher(None)
                net.install_urlopen()
            else:
                parser.setFetcher(net.fetch)
            parser._live = False
            try:
                kk, v = self.bracket(k, lambda: parser.parseUrl(op["url"], encoding=op.get("encoding")))
            finally:
                if op.get("default_fetcher"):
                    net.uninstall_urlopen()
            if kk != "ok" and len(net.log) >= 2:
                self.stats["probe:exception_through_nested_import"] += 1
            return "ok" if kk == "ok" else lib.ename(v)
        if k == "parse_import":
            # oracle 4: the same import graph through a re-entrant fetcher and through a plain one
            docs = op["net"]

            holder = {}

            def reenter():
                inner = op.get("inner", "q { top: 1px } @media print { r { left: 0 } }")
                if op.get("same_parser") and holder.get("p") is not None:
                    # the fetcher re-enters the very parser object that is loading the import
                    self.stats["probe:reentered_same_parser_object"] += 1
                    s = holder["p"].parseString(inner)
                else:
                    s = cu.parseString(inner)
                s.cssText
                cu.stylesheets.MediaList("print, tv")

            plain = {u: dict(d, fault=None if d.get("fault") == "REENTRANT" else d.get("fault")) for u, d in docs.items()}
            n1 = simnet.SimNet(docs, self.stats, reenter=reenter)
            n2 = simnet.SimNet(plain)
            holder["p"] = cu.CSSParser(fetcher=n1.fetch)
            k1, v1 = self.bracket(k, lambda: holder["p"].parseString(op["text"], href="http://h/root.css"))
            k2, v2 = lib.call(lambda: cu.CSSParser(fetcher=n2.fetch).parseString(op["text"], href="http://h/root.css"))
            self.stats["oracle"] += 1
            a, b = self.result_of(k1, v1), self.result_of(k2, v2)
            if a != b:
                raise Viol("reentrant_fetcher", "reentrant:parseString", f"re-entrant fetcher gave {a!r}, plain fetcher {b!r}")
            return "ok" if k1 == "ok" else lib.ename(v1)
        if k == "new_parser":
            p = cu.CSSParser(raiseExceptions=op["raise"], parseComments=op["comments"], validate=op["validate"])
            p._built_mode = cu.log.raiseExceptions
            p._opts = (op["raise"], op["comments"], op["validate"])
            p._uses = 1
            if len(self.parsers) < 3:
                self.parsers.append(p)
            return "ok"
        if k == "standalone":
            cls = {
                "MediaQuery": cu.stylesheets.MediaQuery,
                "MediaList": cu.stylesheets.MediaList,
                "PropertyValue": cu.css.PropertyValue,
                "Selector": cu.css.Selector,
                "SelectorList": cu.css.SelectorList,
                "CSSStyleDeclaration": cu.css.CSSStyleDeclaration,
                "CSSStyleRule": lambda t: cu.css.CSSStyleRule(selectorText=t),
                "CSSMediaRule": lambda t: cu.css.CSSMediaRule(mediaText=t),
                "Property": lambda t: cu.css.Property("color", t),
            }[op["cls"]]
            if op.get("of_list"):
                # an object taken out of a parsed container, then given a text of its own
                def f():
                    if op["cls"] == "MediaQuery":
                        obj, attr = cu.stylesheets.MediaList("print, screen and (color)")[op["of_list"] % 2], "mediaText"
                    elif op["cls"] == "Selector":
                        obj, attr = cu.css.SelectorList("a, b > c")[op["of_list"] % 2], "selectorText"
                    elif op["cls"] == "PropertyValue":
                        obj, attr = cu.parseStyle("top: 1px; left: 2px").getProperties()[op["of_list"] % 2].propertyValue, "cssText"
                    else:
                        obj, attr = cu.parseStyle("top: 1px; left: 2px").getProperties()[op["of_list"] % 2], "cssText"
                    setattr(obj, attr, op["text"] if op["cls"] != "Property" else "color: " + op["text"])
                    return obj

                kk, v = lib.call(f)
                self.stats["probe:member_of_parsed_container_edited"] += 1
            else:
                kk, v = lib.call(cls, op["text"])
            self.stats[f"op:standalone:{op['cls']}:{'ok' if kk == 'ok' else lib.ename(v)}"] += 1
            self._whitebox()
            return "ok" if kk == "ok" else lib.ename(v)
        if k == "reuse_object":
            # oracle 6: an object given t1 (possibly rejected) and then t2 equals a new object given t2
            spec = {
                "Property.value": (lambda: cu.css.Property("left", "1px"), "value", lambda o: (o.cssText, o.wellformed, o.value)),
                "Property.cssText": (lambda: cu.css.Property("left", "1px"), "cssText", lambda o: (o.cssText, o.wellformed, o.name, o.value, o.priority)),
                "PropertyValue.cssText": (lambda: cu.css.PropertyValue("1px"), "cssText", lambda o: (o.cssText, o.wellformed, o.length)),
                "MediaQuery.mediaText": (lambda: cu.stylesheets.MediaQuery("print"), "mediaText", lambda o: (o.mediaText, o.wellformed, o.mediaType)),
                "MediaList.mediaText": (lambda: cu.stylesheets.MediaList("print, tv"), "mediaText", lambda o: (o.mediaText, o.wellformed, o.length)),
                "Selector.selectorText": (lambda: cu.css.Selector("a"), "selectorText", lambda o: (o.selectorText, o.wellformed, tuple(o.specificity))),
                "SelectorList.selectorText": (lambda: cu.css.SelectorList("a, b"), "selectorText", lambda o: (o.selectorText, o.wellformed, o.length)),
                "CSSStyleDeclaration.cssText": (lambda: cu.css.CSSStyleDeclaration("left: 1px"), "cssText", lambda o: (o.cssText, o.length)),
                "CSSUnknownRule.cssText": (lambda: cu.css.CSSUnknownRule("@x y;"), "cssText", lambda o: (o.cssText, o.wellformed, o.atkeyword)),
                "CSSStyleRule.cssText": (lambda: cu.css.CSSStyleRule(selectorText="a", style="left: 1px"), "cssText", lambda o: (o.cssText, o.wellformed)),
            }[op["what"]]
            make, attr, obs = spec
            k0, used = lib.call(make)
            k1, fresh = lib.call(make)
            if k0 != "ok" or k1 != "ok":
                return "noctor"
            lib.call(setattr, used, attr, op["t1"])
            ka, va = lib.call(setattr, used, attr, op["t2"])
            kb, vb = lib.call(setattr, fresh, attr, op["t2"])
            self.stats["oracle"] += 1
            self.stats["probe:object_reused_after_rejected_text"] += 1
            ra = (ka, lib.call(obs, used)[1] if ka == "ok" else lib.ename(va))
            rb = (kb, lib.call(obs, fresh)[1] if kb == "ok" else lib.ename(vb))
            if ra != rb:
                raise Viol("object_reuse", f"reuse:{op['what']}", f"{op['what']}: an object first given {op['t1']!r} and then {op['t2']!r} reads {ra!r}; one that was only given {op['t2']!r} reads {rb!r} (error mode raise={cu.log.raiseExceptions})")
            self._whitebox()
            return "ok"
        if k == "dom_edit":
            s = self.sheet
            if s is None:
                kk, s = lib.call(cu.parseString, "a { color: red } @media print { b { top: 0 } }")
                if kk != "ok":
                    return "nosheet"
                self.sheet = s
            e = op["kind"]
            if e == "insertRule":
                kk, v = lib.call(s.insertRule, op["text"], op["index"] % (len(s.cssRules) + 1))
            elif e == "cssText":
                kk, v = lib.call(setattr, s, "cssText", op["text"])
            elif e == "selectorText":
                rules = [r for r in s.cssRules if r.typeString == "STYLE_RULE"]
                if not rules:
                    return "norule"
                kk, v = lib.call(setattr, rules[op["index"] % len(rules)], "selectorText", op["text"])
            elif e == "styleText":
                rules = [r for r in s.cssRules if r.typeString == "STYLE_RULE"]
                if not rules:
                    return "norule"
                kk, v = lib.call(setattr, rules[op["index"] % len(rules)].style, "cssText", op["text"])
            else:
                kk, v = lib.call(s.deleteRule, op["index"] % (len(s.cssRules) + 1))
            if kk != "ok":
                self.had_fault = True
            self.stats[f"op:dom_edit:{e}:{'ok' if kk == 'ok' else lib.ename(v)}"] += 1
            self._whitebox()
            return "ok" if kk == "ok" else lib.ename(v)
        if k == "prefs":
            kk, s = lib.call(cu.parseString, op["text"])
            prefs = cu.ser.prefs
            try:
                for n, val in op["assign"].items():
                    setattr(prefs, n, val)
                if op.get("minified"):
                    prefs.useMinified()
                if kk == "ok":
                    lib.call(lambda: s.cssText)
            finally:
                prefs.useDefaults()
            self.stats["op:prefs:ok"] += 1
            return "ok"
        if k == "set_serializer":
            old = cu.ser
            cu.setSerializer(cu.serialize.CSSSerializer())
            try:
                cu.ser.prefs.indent = "\t"
                lib.call(lambda: cu.parseString(op["text"]).cssText)
            finally:
                cu.setSerializer(old)
            self.stats["op:set_serializer:ok"] += 1
            return "ok"
        if k == "combine":
            net = simnet.SimNet(op["net"], self.stats)
            net.install_urlopen()
            try:
                if op.get("missing"):
                    from cssutils.script import csscombine

                    def f():
                        # a call that fails: a file that does not exist / bytes that are not in the source encoding
                        if op["missing"] == "file":
                            return csscombine(path=os.path.join(self.scratch(), "no-such-file.css"))
                        path = os.path.join(self.scratch(), "bad.css")
                        with open(path, "wb") as fh:
                            fh.write(b"a { content: '\xff\xfe\xfa' }")
                        return csscombine(path=path, sourceencoding="utf-8")
                elif op.get("resolve"):
                    def f():
                        s = cu.CSSParser(fetcher=net.fetch).parseString(op["text"], href="http://h/root.css")
                        return cu.resolveImports(s)
                else:
                    from cssutils.script import csscombine

                    def f():
                        return csscombine(cssText=op["text"], href="http://h/root.css", minify=op.get("minify", True), targetencoding=op.get("target"))
                kk, v = self.bracket("combine", f)
            finally:
                net.uninstall_urlopen()
            return "ok" if kk == "ok" else lib.ename(v)
        if k == "profile_pair":
            name = "simprof"
            kk, v = lib.call(cu.profile.addProfile, name, {"-sim-x": "{num}|foo", "color": "bar"}, {"num": "[0-9]"} if op.get("macros") else None)
            lib.call(cu.profile.validate, "-sim-x", "1")
            k2, sh = lib.call(cu.parseString, "a { -sim-x: 1; color: bar }")
            if kk == "ok" and k2 == "ok" and len(sh.cssRules):
                # no default profiles are set: a value a registered profile accepts is valid, whatever was parsed before
                p_ = sh.cssRules[0].style.getProperty("-sim-x")
                self.stats["oracle"] += 1
                if p_ is not None and p_.valid is not True:
                    raise Viol("result_depends_on_history", "profile-added-after-parses", f"'-sim-x: 1' is not valid although the profile defining it was just registered and no default profiles are set (valid={p_.valid})")
            lib.call(cu.profile.removeProfile, name)
            self.stats["op:profile_pair:ok"] += 1
            return "ok"
        if k == "flip_mode":
            cu.log.raiseExceptions = op["value"]
            return "ok"
        if k == "battery":
            self.check_battery("mid-run")
            return "ok"
        raise ValueError(k)

    def finish(self):
        try:
            self.check_battery("end of run")
        finally:
            self.close()

    def state(self):
        cu = self.cu
        try:
            from cssutils import prodparser

            saved = len(prodparser.savedTokens)
        except Exception:
            saved = -1
        return (cu.log.raiseExceptions, len(self.parsers), self.sheet is not None and len(self.sheet.cssRules), saved, self.had_fault)


def _net(r, cfg, reentrant=False):
    """a small import graph under http://h/ with seeded faults"""
    docs = {}
    names = ["a.css", "b.css", "c.css"]
    for i, n in enumerate(names):
        imports = ""
        if i + 1 < len(names) and r.random() < 0.6:
            imports = f'@import "{names[i + 1]}";'
        text = imports + G.sheet(r, n=r.choice([0, 1, 2]), bad=cfg["bad_rate"], ordered=True)
        d = {"text": text, "enc": r.choice([None, "utf-8", "iso-8859-1"]), "http": r.choice([None, None, "utf-8"]), "fault": None}
        if r.random() < cfg["fault_rate"]:
            d["fault"] = r.choice(["NOT_FOUND", "EMPTY", "OSERROR", "VALUEERROR", "OTHER_EXC", "OTHER_EXC"])
        if reentrant and r.random() < 0.7:
            d["fault"] = "REENTRANT"
        if r.random() < cfg["fault_rate"] * 0.4:
            d.update(raw_hex=r.choice(UNDECODABLE), enc="x")
            d["fault"] = d["fault"] if d["fault"] != "REENTRANT" else None
        docs["http://h/" + n] = d
    return docs


def gen_op(r, w, i):
    cfg = w.cfg
    if i >= cfg["n_ops"]:
        return None
    k = r.choice(cfg["kinds"])
    bad = cfg["bad_rate"]
    via = r.choice(["fresh", "fresh", "p0", "p1", "p2"])
    base = {"op": k}
    if k == "parse_string":
        t = r.random()
        if t < 0.5:
            text = G.sheet(r, bad=bad)
        elif t < 0.75:
            text = G.soup(r, r.choice([3, 10, 30]))
        else:
            text = G.torn(r, G.sheet(r, bad=bad))
        base.update(text=text, via=via, keep=r.random() < 0.3)
        if via == "fresh":
            base.update({"raise": r.random() < cfg["fault_rate"], "comments": r.random() < 0.8, "validate": r.random() < 0.8})
        if r.random() < 0.3:
            base.update(net=_net(r, cfg), href="http://h/root.css", text='@import "a.css";' + text)
        return base
    if k == "parse_bytes":
        if r.random() < max(0.15, cfg["fault_rate"]):
            hx = r.choice(UNDECODABLE)
            enc = r.choice([None, "utf-8", "ascii"])
        else:
            enc = r.choice([None, "utf-8", "iso-8859-1", "utf-16"])
            hx = G.sheet(r, bad=bad).encode(enc or "utf-8", "replace").hex()
        base.update(hex=hx, encoding=enc, via=via)
        if via == "fresh":
            base.update({"raise": r.random() < cfg["fault_rate"]})
        return base
    if k == "parse_style":
        if r.random() < max(0.15, cfg["fault_rate"]):
            base.update(hex=r.choice(UNDECODABLE))
        else:
            base.update(text=G.decl_block(r, bad=bad))
        base.update(via=via, validate=r.choice([None, None, True, False]))
        if via == "fresh":
            base.update({"raise": r.random() < cfg["fault_rate"]})
        return base
    if k == "parse_file":
        base.update(name=r.choice(["f.css", "g.css"]), exists=r.random() > max(0.15, cfg["fault_rate"]), hex=G.sheet(r, bad=bad).encode("utf-8").hex(), encoding=r.choice([None, "utf-8", "ascii"]), via=via)
        if r.random() < 0.15:
            base["hex"] = r.choice(UNDECODABLE)
        return base
    if k == "parse_url":
        base.update(net=_net(r, cfg), url="http://h/a.css", default_fetcher=r.random() < 0.3, encoding=r.choice([None, None, "utf-8"]), via=r.choice(["fresh", "p0"]))
        return base
    if k == "parse_import":
        base.update(net=_net(r, cfg, reentrant=True), text='@import "a.css"; ' + G.sheet(r, n=2, bad=bad), same_parser=r.random() < 0.5)
        return base
    if k == "new_parser":
        base.update({"raise": r.random() < 0.4, "comments": r.random() < 0.8, "validate": r.random() < 0.8})
        return base
    if k == "standalone":
        cls = r.choice(["MediaQuery", "MediaList", "PropertyValue", "Selector", "SelectorList", "CSSStyleDeclaration", "CSSStyleRule", "CSSMediaRule", "Property"])
        texts = {
            "MediaQuery": ["print, screen", "print", "screen and (color), tv", "print;", "(min-width: 1px) and", "tv }", G.media_query(r)],
            "MediaList": ["print, screen", "print,", "tv; a", G.media_list(r, bad)],
            "PropertyValue": ["1px;", "1px 2px", "red)", "a, b;c", "f(1", "1px}", "url(x) !important"],
            "Selector": ["a, b", "a", "a {", "a > ", "a;b", G.selector(r)],
            "SelectorList": ["a, b", "a,, b", "a, b {", G.selector_list(r, bad)],
            "CSSStyleDeclaration": ["color: red; }", "color: red", "a: b; c", G.decl_block(r, bad=bad)],
            "CSSStyleRule": ["a, b", "a {", "a,"],
            "CSSMediaRule": ["print, tv", "print {", "print, "],
            "Property": ["red", "red; blue", "1px }", "f("],
        }[cls]
        base.update(cls=cls, text=r.choice(texts))
        if cls in ("MediaQuery", "Selector", "PropertyValue", "Property") and r.random() < 0.4:
            base["of_list"] = r.choice([1, 2])
        return base
    if k == "reuse_object":
        what = r.choice(["Property.value", "Property.value", "Property.cssText", "PropertyValue.cssText", "MediaQuery.mediaText", "MediaQuery.mediaText", "MediaList.mediaText", "Selector.selectorText", "SelectorList.selectorText", "CSSStyleDeclaration.cssText", "CSSUnknownRule.cssText", "CSSStyleRule.cssText"])
        pools = {
            "Property.value": (["$", "", "1;2", "(", "red }"], ["2px", "red", "1px 2px"]),
            "Property.cssText": (["left", ": x", "top: (", "1a: b"], ["top: 2px", "color: red !important"]),
            "PropertyValue.cssText": (["$", "(", "1px;"], ["2px", "a b"]),
            "MediaQuery.mediaText": (["3d", "print and", "screen and (x", "tv, print"], ["not screen and (color)", "tv", "(min-width: 1px)", "only print"]),
            "MediaList.mediaText": (["3d", "print and", "/*x*/"], ["screen", "tv, print", "all"]),
            "Selector.selectorText": (["a[", "1a", "a >", ":not("], ["b > c", "a.k#i"]),
            "SelectorList.selectorText": (["a,, b", "a[", ","], ["c, d", "e"]),
            "CSSStyleDeclaration.cssText": (["color: (", "a b", "$x: 1"], ["top: 0", "color: red; left: 1px"]),
            "CSSUnknownRule.cssText": (["@y { a }", "@x {", "a { }", "@y z;"], ["@x z;", "@x { a: b }"]),
            "CSSStyleRule.cssText": (["b { left: (", "b,, c { }", "@media print { }", "b {"], ["b { top: 0 }", "c, d { left: 2px }"]),
        }[what]
        t1 = r.choice(pools[0]) if r.random() < 0.7 else r.choice(pools[1])
        return {"op": k, "what": what, "t1": t1, "t2": r.choice(pools[1])}
    if k == "parse_live":
        docs = {"http://h/a.css": {"text": r.choice(["z { left: 1px }", "z { left: 2px }", "y { top: 0 } @media print { z { left: 3px } }", '@import "b.css"; z { left: 4px }', "", "z {"]), "enc": None, "http": None, "fault": r.choice([None, None, None, "NOT_FOUND"])}, "http://h/b.css": {"text": r.choice(["w { top: 1px }", "w { top: 2px }"]), "enc": None, "http": None, "fault": None}}
        return {"op": k, "via": r.choice(["p0", "p1"]), "net": docs, "text": r.choice(['@import "a.css";', '@import "a.css"; @import "b.css";', '@import "a.css" print; a { top: 0 }'])}
    if k == "dom_edit":
        e = r.choice(["insertRule", "cssText", "selectorText", "styleText", "deleteRule"])
        base.update(kind=e, index=r.randrange(0, 6))
        if e == "insertRule":
            base["text"] = G.rule(r, r.choice(G.KINDS), bad)
        elif e == "cssText":
            base["text"] = G.sheet(r, bad=bad, ordered=r.random() < 0.7)
        elif e == "selectorText":
            base["text"] = G.selector_list(r, bad)
        elif e == "styleText":
            base["text"] = G.decl_block(r, bad=bad)
        return base
    if k == "prefs":
        assign = {}
        for n, vals in (("indent", ["", "  "]), ("keepComments", [False]), ("omitLastSemicolon", [False]), ("lineSeparator", [""]), ("keepAllProperties", [False]), ("resolveVariables", [False]), ("indentClosingBrace", [False]), ("keepEmptyRules", [True]), ("indentSpecificities", [True]), ("lineNumbers", [True]), ("validOnly", [True]), ("defaultPropertyName", [False]), ("importHrefFormat", ["string", "uri"])):
            if r.random() < 0.3:
                assign[n] = r.choice(vals)
        base.update(assign=assign, minified=r.random() < 0.3, text=G.sheet(r))
        return base
    if k == "set_serializer":
        base.update(text=G.sheet(r))
        return base
    if k == "combine":
        base.update(net=_net(r, cfg), text='@import "a.css" print; @import "b.css"; ' + G.sheet(r, n=1), resolve=r.random() < 0.5, minify=r.random() < 0.5, target=r.choice([None, "utf-8", "ascii"]), missing=r.choice([None, None, None, "file", "bytes"]))
        return base
    if k == "profile_pair":
        base.update(macros=r.random() < 0.5)
        return base
    if k == "flip_mode":
        base.update(value=r.random() < 0.5)
        return base
    if k == "battery":
        return base
    if k == "reuse":
        return {"op": "parse_string", "text": G.sheet(r, bad=bad), "via": r.choice(["p0", "p1"])}
    return base
