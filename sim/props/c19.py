"""C19 - URL enumeration / replacement exact; flattening @imports preserves meaning.

World: a generated virtual web (depth <= 4): sheets in parent, sibling and child directories and on
another host; url() values and @import targets written as relative, ../-relative, root-relative,
scheme-relative and absolute URLs with query strings and fragments; media on any import edge; targets
that are missing or fail; targets containing rules that cannot be wrapped in @media.  SimNet serves it
(custom fetcher, or fake urlopen for csscombine's default fetcher).  Every style rule has a unique
selector, so every leaf of the combined sheet can be traced back to the sheet it came from.
"""
import collections
import urllib.parse

from sim.kit import lib
from sim.kit.runner import Viol
from sim.world import simlog, simnet

ID = "C19"
FORK = True
RUNS = {"quick": 8000, "thorough": 150_000}
RULE = "run = generated virtual web of 1-8 sheets (import tree/DAG with media on edges, missing or failing targets, unwrappable content, every URL form) + seeded operations getUrls / replaceUrls (identity, prefixing, recording) / resolveImports / csscombine (normal, minified) judged against an expansion oracle computed from the generator's abstract sheets with urljoin"
REAL = ["cssutils/__init__.py (getUrls, replaceUrls, Replacer, resolveImports, _resolve_import, _check_media_proxy)", "cssutils/script.py (csscombine)", "cssutils/css/cssimportrule.py", "cssutils/css/value.py (URIValue)", "cssutils/_fetch.py (default fetcher)", "urllib.parse"]
STUBS = ["SimNet fetcher / fake urllib.request.urlopen serving the virtual web", "scratch directory holding the same tree as real files (csscombine(path=): parseFile + default fetcher on file: URLs, real file I/O)", "SimLog"]
ASSUMPTIONS = [
    "where the statement leaves a choice the outcome is observed: an import whose flattened group contains @page / @font-face / nested @media may be wrapped or kept",
    "kept @import leaves are necessarily hoisted, so kept imports and all other leaves are compared as two separate ordered sequences",
    "a kept import below depth 1 may keep its href verbatim or have it rebased (statement ambiguous); a depth-1 kept import must resolve to its original target",
    "fetch-once is judged on trees (one edge per target)",
]
PROBES = ["csscombine_path", "import_with_media_wrapped", "import_kept_unavailable", "import_kept_unwrappable", "nested_import_depth2", "nested_import_depth3", "url_with_query_or_fragment", "parent_relative_url", "absolute_import", "replacer_called", "csscombine_minified", "missing_nested_under_media"]

HOST = "http://h"
DIRS = ["/css/", "/css/sub/", "/css/sub/deep/", "/other/", "/"]
URL_FORMS = ["img/{n}.png", "{n}.png", "../{n}.png", "../img/{n}.gif", "/abs/{n}.png", "http://cdn.example/{n}.png", "//cdn.example/{n}.png", "{n}.png?v=1", "i/{n}.svg#frag", "{n}.png?a=b&c=d#top", "./{n}.png", "../../up/{n}.png", "#blur{n}", "?v={n}", "#{n}", "{n}.svg#a?b", "img{n}/", "a%20{n}.png", "{n}.png;v=1", "sub/../{n}.png", "{n}%25.png"]
EDGE_MEDIA = ["all", "all", None, "print", "screen, tv", "print"]


def config(rs, run, tier):
    r = rs("config")
    n = r.choice([1, 2, 2, 3, 3, 4, 5, 6, 8])
    sheets = {}
    urls = []
    for i in range(n):
        if i == 0:
            u = HOST + r.choice(DIRS[:3]) + "root.css"
        else:
            host = HOST if r.random() < 0.85 else "http://o"
            u = host + r.choice(DIRS) + f"s{i}.css"
        urls.append(u)
    counter = [0]

    def relhref(frm, to):
        """write the target as one of several href forms that resolve to `to` from `frm`"""
        f, t = urllib.parse.urlsplit(frm), urllib.parse.urlsplit(to)
        forms = [to]
        if f.netloc == t.netloc:
            forms.append(t.path)  # root-relative
            import posixpath

            rel = posixpath.relpath(t.path, posixpath.dirname(f.path))
            forms += [rel, rel, rel]
        else:
            forms.append("//" + t.netloc + t.path)
        return r.choice(forms)

    for i, u in enumerate(urls):
        items = []
        # import edges only to later sheets: a tree or DAG, no cycles
        later = list(range(i + 1, n))
        r.shuffle(later)
        for j in later[: r.choice([0, 1, 1, 2, 3])]:
            items.append(["import", relhref(u, urls[j]), r.choice(EDGE_MEDIA), urls[j]])
        if r.random() < 0.2:
            items.append(["import", f"missing{i}.css", r.choice(EDGE_MEDIA), None])
        # a licence comment or (root only) an unknown at-rule in front of or between the @import rules
        if r.random() < 0.3:
            items.insert(r.randrange(0, len(items) + 1), ["comment", f"licence {i}"])
        if i == 0 and r.random() < 0.2:
            items.insert(r.randrange(0, len(items) + 1), ["unknown", f"@x-meta v{i};"])
        if r.random() < 0.12:
            items.append(["namespace", f"n{i}", f"urn:{i}"])
        for _ in range(r.choice([0, 1, 1, 2, 3])):
            k = r.random()
            counter[0] += 1
            c = counter[0]
            us = [r.choice(URL_FORMS).format(n=f"u{c}{x}") for x in "ab"[: r.choice([0, 1, 1, 2])]]
            if k < 0.7:
                items.append(["style", f".s{c}", us])
            elif k < 0.8:
                items.append(["fontface", f"f{c}", us[:1] or [f"f{c}.woff"]])
            elif k < 0.9:
                items.append(["page", f"pg{c}", us])
            else:
                items.append(["media", "tv", f".s{c}", us])
        sheets[u] = {"items": items, "fault": None if i == 0 else r.choice([None] * 9 + ["NOT_FOUND", "OSERROR"])}
    # trees only? mark whether every target has one edge
    indeg = collections.Counter(it[3] for s in sheets.values() for it in s["items"] if it[0] == "import" and it[3])
    return {"sheets": sheets, "root": urls[0], "tree": all(v == 1 for v in indeg.values()), "n_ops": r.choice([1, 2, 3, 4]), "raise": r.random() < 0.4}


def render(sheet):
    out = []
    for it in sheet["items"]:
        k = it[0]
        if k == "import":
            m = "" if it[2] in (None,) else " " + it[2]
            out.append(f'@import url("{it[1]}"){m};')
        elif k == "namespace":
            out.append(f'@namespace {it[1]} "{it[2]}";')
        elif k == "comment":
            out.append(f"/* {it[1]} */")
        elif k == "unknown":
            out.append(it[1])
        elif k == "style":
            decl = "; ".join([f"background: url({u})" if i == 0 else (f"list-style-image: url('{u}')" if len(u) % 2 else f"cursor: image-set(url('{u}') 1x), auto") for i, u in enumerate(it[2])] or ["left: 0"])
            out.append(f"{it[1]} {{ {decl} }}")
        elif k == "fontface":
            out.append(f"@font-face {{ font-family: {it[1]}; src: url({it[2][0]}) }}")
        elif k == "page":
            # first URL in the page's own declarations, second one in a margin box (document order: own first)
            decl = f"background: url({it[2][0]})" if it[2] else "margin: 0"
            box = f" @top-left {{ background: url({it[2][1]}) }}" if len(it[2]) > 1 else ""
            out.append(f"@page {it[1]} {{ {decl};{box} }}")
        elif k == "media":
            decl = "; ".join([f"background: url({u})" for u in it[3]] or ["left: 0"])
            out.append(f"@media {it[1]} {{ {it[2]} {{ {decl} }} }}")
    return "\n".join(out)


def own_urls(sheet):
    """(import hrefs, url() values) in document order"""
    imps = [it[1] for it in sheet["items"] if it[0] == "import"]
    vals = []
    for it in sheet["items"]:
        if it[0] == "style":
            vals += it[2]
        elif it[0] == "fontface":
            vals += it[2][:1]
        elif it[0] == "page":
            vals += it[2]
        elif it[0] == "media":
            vals += it[3]
    return imps, vals


class World:
    def __init__(self, cfg):
        import cssutils

        self.cu = cu = cssutils
        self.cfg = cfg
        self.stats = collections.Counter()
        self.soft = []
        self.log = simlog.install()
        self.sheets = cfg["sheets"]
        self.root = cfg["root"]
        docs = {u: {"text": render(s), "enc": "utf-8", "http": None, "fault": s["fault"]} for u, s in self.sheets.items()}
        self.net = simnet.SimNet(docs, self.stats)
        cu.log.raiseExceptions = False
        k, s = lib.call(lambda: cu.CSSParser(fetcher=self.net.fetch).parseUrl(self.root))
        if k != "ok" or s is None:
            raise Viol("parse_returns", "parseUrl", f"root did not parse: {s!r}")
        self.sheet = s
        cu.log.raiseExceptions = cfg["raise"]
        self.parse_fetches = len(self.net.log)

    # ------------------------------------------------------------------ oracle: expansion of the tree
    def available(self, url):
        return url in self.sheets and not self.sheets[url]["fault"]

    def expand(self, url, ctx, depth, kept_cb):
        """expected leaves of sheet `url` under media context ctx.
        returns (kept_imports, leaves); kept_cb(edge) tells, for edges where the statement leaves a choice,
        whether the implementation kept the import (observed)."""
        kept, leaves = [], []
        sh = self.sheets[url]
        for it in sh["items"]:
            if it[0] != "import":
                continue
            href, media, target = it[1], it[2] or "all", it[3]
            absu = urllib.parse.urljoin(url, href)
            if depth + 1 == 2:
                self.stats["probe:nested_import_depth2"] += 1
            if depth + 1 >= 3:
                self.stats["probe:nested_import_depth3"] += 1
            if not self.available(absu):
                kept.append(("import", absu, media, depth, ctx))
                self.stats["probe:import_kept_unavailable"] += 1
                if ctx or media != "all":
                    self.stats["probe:missing_nested_under_media"] += 1
                continue
            k2, l2 = self.expand(absu, ctx, depth + 1, kept_cb)
            if media == "all":
                kept += k2
                leaves += l2
                continue
            kinds = {x[1][0] for x in l2}
            nested_media = self.has_media_below(absu)
            if k2 or "namespace" in kinds:
                must_keep = True
            elif kinds <= {"style"} and not nested_media:
                must_keep = False
            else:
                must_keep = None  # @page / @font-face / nested @media (even an empty one): either outcome
            is_kept = kept_cb(absu, media, depth) if must_keep is None else must_keep
            if is_kept:
                kept.append(("import", absu, media, depth, ctx))
                self.stats["probe:import_kept_unwrappable"] += 1
            else:
                self.stats["probe:import_with_media_wrapped"] += 1
                k3, l3 = self.expand(absu, ctx + (media,), depth + 1, kept_cb)
                leaves += l3
        for it in sh["items"]:
            k = it[0]
            if k == "style":
                leaves.append((ctx, ("style", it[1], tuple(urllib.parse.urljoin(url, u) for u in it[2]))))
            elif k == "media":
                leaves.append((ctx + (it[1],), ("style", it[2], tuple(urllib.parse.urljoin(url, u) for u in it[3]))))
            elif k == "fontface":
                leaves.append((ctx, ("fontface", it[1], tuple(urllib.parse.urljoin(url, u) for u in it[2][:1]))))
            elif k == "page":
                leaves.append((ctx, ("page", it[1], tuple(urllib.parse.urljoin(url, u) for u in it[2]))))
            elif k == "namespace":
                leaves.append((ctx, ("namespace", it[1], it[2])))
        return kept, leaves

    def has_media_below(self, url, seen=()):
        """does the flattened group of `url` contain an @media block (own @media rule or a media-qualified import)?"""
        if url in seen or not self.available(url):
            return False
        for it in self.sheets[url]["items"]:
            if it[0] == "media":
                return True
            if it[0] == "import":
                t = urllib.parse.urljoin(url, it[1])
                if self.available(t) and ((it[2] or "all") != "all" or self.has_media_below(t, seen + (url,))):
                    return True
        return False

    def actual(self, combined, base):
        """(kept imports, leaves) of a combined sheet, URLs made absolute against `base`"""
        cu = self.cu
        kept, leaves = [], []

        def uris(style):
            # (own walk, also into functions such as image-set())
            def walk(values):
                for v in values:
                    if getattr(v, "type", None) == "URI":
                        yield v.uri
                    elif hasattr(v, "seq") and getattr(v, "type", None) in ("FUNCTION", "VARIABLE", "CALC"):
                        yield from walk(i.value for i in v.seq)

            return tuple(urllib.parse.urljoin(base, u) for p in style.getProperties(all=True) for u in walk(p.propertyValue))

        def walk(rules, ctx):
            for r in rules:
                t = r.typeString
                if t == "IMPORT_RULE":
                    kept.append((r.href, r.media.mediaText, ctx))
                elif t == "STYLE_RULE":
                    leaves.append((ctx, ("style", r.selectorText, uris(r.style))))
                elif t == "MEDIA_RULE":
                    walk(r.cssRules, ctx + (r.media.mediaText,))
                elif t == "FONT_FACE_RULE":
                    leaves.append((ctx, ("fontface", r.style.getPropertyValue("font-family"), uris(r.style))))
                elif t == "PAGE_RULE":
                    leaves.append((ctx, ("page", r.selectorText, uris(r.style) + tuple(u for m in r.cssRules for u in uris(m.style)))))
                elif t == "NAMESPACE_RULE":
                    leaves.append((ctx, ("namespace", r.prefix, r.namespaceURI)))

        walk(combined.cssRules, ())
        return kept, leaves

    def compare(self, combined, base, where):
        self.stats["oracle"] += 1
        akept, aleaves = self.actual(combined, base)

        def kept_cb(absu, media, depth):
            for href, m, ctx in akept:
                if urllib.parse.urljoin(base, href) == absu:
                    return True
                if any(urllib.parse.urljoin(u, href) == absu for u in self.sheets):
                    return True
            return False

        ekept, eleaves = self.expand(self.root, (), 0, kept_cb)
        ens = sorted(x[1] for x in eleaves if x[1][0] == "namespace")
        ans = sorted(x[1] for x in aleaves if x[1][0] == "namespace")
        el = [x for x in eleaves if x[1][0] != "namespace"]
        al = [x for x in aleaves if x[1][0] != "namespace"]
        if el != al:
            lost = [x for x in el if x not in al]
            extra = [x for x in al if x not in el]
            if lost and not extra:
                sig = "leaf-lost"
            elif lost and extra and {x[1][:2] for x in lost} == {x[1][:2] for x in extra}:
                sig = "leaf-context" if {x[1] for x in lost} == {x[1] for x in extra} else "leaf-url"
            elif extra and not lost:
                sig = "leaf-duplicated-or-extra"
            elif not lost and not extra:
                sig = "leaf-order"
            else:
                sig = "leaf-other"
            raise Viol("flatten_preserves_meaning", f"{where}:{sig}", f"{where}: combined sheet differs from the expansion of the import tree: lost={lost[:3]} extra={extra[:3]} (expected {len(el)} leaves, got {len(al)})")
        ens, ans = sorted(set(ens)), sorted(set(ans))
        if where == "csscombine-min":
            ens = ans = []  # the minified preset drops @namespace rules no selector uses (documented effect)
        if ens != ans:
            raise Viol("flatten_preserves_meaning", f"{where}:namespaces", f"{where}: namespace declarations {ans}, expected {ens}")
        # kept imports: same sequence of targets; depth-1 kept imports must resolve to the original target
        if len(ekept) != len(akept):
            raise Viol("flatten_preserves_meaning", f"{where}:kept-import-count", f"{where}: kept @imports {akept}, expected {[(k[1], k[2]) for k in ekept]}")
        for (_, absu, media, depth, ctx), (href, m, actx) in zip(ekept, akept):
            ok = urllib.parse.urljoin(base, href) == absu or (depth >= 1 and any(urllib.parse.urljoin(u, href) == absu for u in self.sheets))
            if not ok:
                raise Viol("flatten_preserves_meaning", f"{where}:kept-import-target", f"{where}: kept @import {href!r} (depth {depth}) resolves to {urllib.parse.urljoin(base, href)!r}, original target {absu!r}")

    # ------------------------------------------------------------------ operations
    def step(self, op):
        cu, k = self.cu, op["op"]
        out = "ok"
        if k == "get_urls":
            for u, sh in self.sheets.items():
                if u != self.root and not op.get("all"):
                    continue
                s = self.sheet if u == self.root else None
                if s is None:
                    continue
                self.check_urls(s, sh)
        elif k == "replace":
            s = self.sheet
            sh = self.sheets[self.root]
            imps, vals = own_urls(sh)
            before = s.cssText
            mode = op["mode"]
            calls = []
            if mode == "identity":
                f = lambda u: (calls.append(u), u)[1]  # noqa: E731
            else:
                f = lambda u: (calls.append(u), "PFX/" + u)[1]  # noqa: E731
            kk, v = lib.call(cu.replaceUrls, s, f, op.get("ignore_imports", False))
            if kk != "ok":
                raise Viol("replace_urls_total", f"replaceUrls:raises:{lib.ename(v)}", f"{v!r}")
            self.stats["oracle"] += 1
            self.stats["probe:replacer_called"] += len(calls)
            want = ([] if op.get("ignore_imports") else imps) + vals
            if calls != want:
                raise Viol("replace_urls_exact", f"replaceUrls:{mode}:call-log", f"replacer called with {calls}, expected {want}")
            if mode == "identity":
                if s.cssText != before:
                    raise Viol("replace_urls_exact", "replaceUrls:identity-not-noop", f"{before!r} -> {s.cssText!r}")
            else:
                got = list(cu.getUrls(s))
                exp = [("PFX/" + u) if not (op.get("ignore_imports") and i < len(imps)) else u for i, u in enumerate(imps + vals)]
                if got != exp:
                    raise Viol("replace_urls_exact", "replaceUrls:prefix-result", f"after prefixing getUrls gives {got}, expected {exp}")
                # undo (the prefixed imports were re-fetched and failed: rules are kept, hrefs restored)
                lib.call(cu.replaceUrls, s, lambda u: u[4:] if u.startswith("PFX/") else u, op.get("ignore_imports", False))
                if list(cu.getUrls(s)) != imps + vals:
                    raise Viol("replace_urls_exact", "replaceUrls:undo", f"stripping the prefix again gives {list(cu.getUrls(s))}")
                if not op.get("ignore_imports"):
                    # hrefs were reloaded: restore the parsed state for later operations
                    cu.log.raiseExceptions = False
                    self.sheet = cu.CSSParser(fetcher=self.net.fetch).parseUrl(self.root)
                    cu.log.raiseExceptions = self.cfg["raise"]
        elif k == "resolve":
            n0 = len(self.net.log)
            ser_before = (id(cu.ser), tuple(sorted((a, repr(b)) for a, b in vars(cu.ser.prefs).items())))
            kk, combined = lib.call(cu.resolveImports, self.sheet)
            if kk != "ok":
                raise Viol("flatten_total", f"resolveImports:raises:{lib.ename(combined)}@{lib.innermost_repo_function(combined, self._repo())}", f"resolveImports raised {combined!r} (raise mode {self.cfg['raise']})")
            self.stats["accepted"] += 1
            self.compare(combined, self.root, "resolveImports")
            if self.cfg["tree"]:
                self.fetch_once(n0)
            if (id(cu.ser), tuple(sorted((a, repr(b)) for a, b in vars(cu.ser.prefs).items()))) != ser_before:
                raise Viol("serializer_unchanged", "resolveImports:serializer", "global serializer changed")
            # the source sheet was parsed once and is consumed by the flattening: parse again for later ops
            cu.log.raiseExceptions = False
            self.sheet = cu.CSSParser(fetcher=self.net.fetch).parseUrl(self.root)
            cu.log.raiseExceptions = self.cfg["raise"]
        elif k == "combine":
            from cssutils.script import csscombine

            net2 = simnet.SimNet(self.net.docs, self.stats)
            net2.install_urlopen()
            ser_before = (id(cu.ser), tuple(sorted((a, repr(b)) for a, b in vars(cu.ser.prefs).items())))
            try:
                kk, out_bytes = lib.call(csscombine, url=self.root, minify=op["minify"], targetencoding=op.get("target"))
            finally:
                net2.uninstall_urlopen()
            if kk != "ok":
                raise Viol("flatten_total", f"csscombine:raises:{lib.ename(out_bytes)}@{lib.innermost_repo_function(out_bytes, self._repo())}", f"csscombine raised {out_bytes!r}")
            if (id(cu.ser), tuple(sorted((a, repr(b)) for a, b in vars(cu.ser.prefs).items()))) != ser_before:
                raise Viol("serializer_unchanged", "csscombine:serializer", "global serializer / preferences changed by csscombine")
            self.stats["accepted"] += 1
            if op["minify"]:
                self.stats["probe:csscombine_minified"] += 1
            mode = cu.log.raiseExceptions
            cu.log.raiseExceptions = False
            try:
                k2, s2 = lib.call(lambda: cu.CSSParser(fetcher=lambda u: None).parseString(out_bytes, href=self.root))
            finally:
                cu.log.raiseExceptions = mode
            if k2 != "ok":
                raise Viol("flatten_total", "csscombine:output-unparsable", f"{out_bytes!r}: {s2!r}")
            self.compare(s2, self.root, "csscombine-min" if op["minify"] else "csscombine")
        elif k == "combine_path":
            # the same tree materialised as files: parseFile + the default fetcher on file: URLs (real file I/O)
            import pathlib
            import shutil
            import tempfile
            from cssutils.script import csscombine

            rel_only = all(urllib.parse.urlsplit(u).netloc == "h" for u in self.sheets) and all(
                not it[1].startswith(("http", "//", "/")) for sh in self.sheets.values() for it in sh["items"] if it[0] == "import"
            )
            if not rel_only:
                return "n/a"
            tmp = tempfile.mkdtemp(prefix="simfs-c19-")
            try:
                for u, sh in self.sheets.items():
                    if sh["fault"]:
                        continue  # MISSING_FILE
                    fp = pathlib.Path(tmp + urllib.parse.urlsplit(u).path)
                    fp.parent.mkdir(parents=True, exist_ok=True)
                    fp.write_text(render(sh), encoding="utf-8")
                rootpath = tmp + urllib.parse.urlsplit(self.root).path
                kk, out_bytes = lib.call(csscombine, path=rootpath, minify=op["minify"])
                if kk != "ok":
                    raise Viol("flatten_total", f"csscombine(path):raises:{lib.ename(out_bytes)}", f"csscombine(path=...) raised {out_bytes!r}")
                self.stats["accepted"] += 1
                self.stats["probe:csscombine_path"] += 1
                mode = cu.log.raiseExceptions
                cu.log.raiseExceptions = False
                try:
                    k2, s2 = lib.call(lambda: cu.CSSParser(fetcher=lambda u: None).parseString(out_bytes, href=self.root))
                finally:
                    cu.log.raiseExceptions = mode
                if k2 != "ok":
                    raise Viol("flatten_total", "csscombine(path):output-unparsable", f"{out_bytes!r}")
                # hrefs/urls in the output are relative to the root file = relative to the root URL of the virtual web
                self.compare(s2, self.root, "csscombine-min" if op["minify"] else "csscombine")
            finally:
                shutil.rmtree(tmp, ignore_errors=True)
        else:
            raise ValueError(k)
        self.stats[f"op:{k}:{out}"] += 1
        return out

    def _repo(self):
        from sim.kit import env

        return env.REPO

    def check_urls(self, s, sh):
        cu = self.cu
        imps, vals = own_urls(sh)
        self.stats["oracle"] += 1
        kk, got = lib.call(lambda: list(cu.getUrls(s)))
        if kk != "ok":
            raise Viol("get_urls_exact", f"getUrls:raises:{lib.ename(got)}", f"{got!r}")
        if got != imps + vals:
            sig = "order" if sorted(got) == sorted(imps + vals) else "content"
            raise Viol("get_urls_exact", f"getUrls:{sig}", f"getUrls -> {got}, document order is {imps + vals}")
        if any("?" in u or "#" in u for u in vals):
            self.stats["probe:url_with_query_or_fragment"] += 1
        if any(u.startswith("../") for u in vals):
            self.stats["probe:parent_relative_url"] += 1
        if any(u.startswith("http") or u.startswith("//") for u in imps):
            self.stats["probe:absolute_import"] += 1

    def fetch_once(self, n0):
        self.stats["oracle"] += 1
        counts = collections.Counter(u for u, _ in self.net.log[: self.parse_fetches]) + collections.Counter(u for u, _ in self.net.log[n0:])
        for u, c in counts.items():
            if c > 1:
                if not self.available(u):
                    self.soft.append({"inv": "fetch_once", "sig": "unavailable-target-fetched-again-when-kept", "detail": f"{u} (unavailable) fetched {c} times across parse + flatten"})
                else:
                    raise Viol("fetch_once", "available-target-fetched-twice", f"{u} fetched {c} times across parse + flatten: {self.net.log}")

    def finish(self):
        pass

    def state(self):
        return (len(self.sheets), self.cfg["tree"], tuple(sorted({it[0] + str(it[2]) if it[0] == "import" else it[0] for s in self.sheets.values() for it in s["items"]})))


def gen_op(r, w, i):
    cfg = w.cfg
    if i >= cfg["n_ops"]:
        return None
    k = r.choice(["get_urls", "replace", "replace", "resolve", "resolve", "resolve", "combine", "combine", "combine_path"])
    if k == "combine_path":
        return {"op": k, "minify": r.random() < 0.5}
    if k == "get_urls":
        return {"op": k}
    if k == "replace":
        return {"op": k, "mode": r.choice(["identity", "prefix"]), "ignore_imports": r.random() < 0.5}
    if k == "resolve":
        return {"op": k}
    return {"op": k, "minify": r.random() < 0.5, "target": r.choice([None, "utf-8", "ascii"])}
