"""C17 - media lists are canonical ordered sets; media queries survive intact.

World: a MediaList stand-alone, owned by an @media rule, or owned by an @import rule, driven by a seeded
edit history in lock step with an ordered-set reference model; restart through the owner rule.
"""
import collections

from sim.gen import css as G
from sim.kit import lib
from sim.kit.runner import Viol
from sim.world import simlog

ID = "C17"
FORK = True
RUNS = {"quick": 14_000, "thorough": 280_000}
RULE = "run = one media list (stand-alone / @media-owned / @import-owned) + seeded history of appendMedium / deleteMedium / item assignment / item deletion / mediaText assignment (well-formed, duplicates, 'all', comments, one malformed query) / restart, compared after every step with an ordered-set model and self-consistency invariants"
REAL = ["cssutils/stylesheets/medialist.py", "cssutils/stylesheets/mediaquery.py", "cssutils/prodparser.py", "cssutils/serialize.py (do_stylesheets_medialist/mediaquery)", "cssutils/css/cssmediarule.py, cssimportrule.py (owners)"]
STUBS = ["SimLog log sink", "fetcher returning nothing for the @import owner"]
ASSUMPTIONS = [
    "media types are written in lower case where the oracle is set semantics (the statement does not fix case semantics of the collapse/dedup clauses)",
    "which literal spelling of a moved type survives is not compared",
    "appending to the empty list (which means 'all' but holds no 'all' item) is observed, not predicted",
    "item assignment is predicted (the assigned query takes the place, 'all' collapses, a simple type is kept once, nothing else leaves); item deletion is judged by the canonical-form invariants",
    "a query is a simple media type iff its text is one identifier (no 'not'/'only', no feature): the reported mediaType is compared with this text-derived classification",
]
PROBES = ["append_present_type_moves", "append_to_all_rejected", "delete_absent_rejected", "malformed_query_rejects_list", "all_collapses", "list_with_comment", "restart_via_owner", "structured_query_kept", "rejected_edit_of_member"]

SIMPLE = ["print", "screen", "tv", "tty", "handheld", "projection", "braille", "embossed"]  # (the types the library knows; not 'aural')


def config(rs, run, tier):
    r = rs("config")
    return {
        "owner": r.choice(["none", "none", "media", "import"]),
        "raise": r.random() < 0.6,
        "n_ops": r.choice([1, 2, 3, 4, 6, 8, 12, 25, 40]),
        "bad_rate": r.choice([0.0, 0.2, 0.5]),
        "init": r.choice([None, "print", "print, tv", "all", "screen and (color), tv"]),
    }


def structured(r):
    parts = [r.choice(["", "", "not ", "only "]) + r.choice(SIMPLE + ["all"])] if r.random() < 0.75 else []
    n = r.choice([1, 1, 2, 3])
    if parts and " " in parts[0] and r.random() < 0.45:
        n = 0  # 'not tv' / 'only screen': no feature, yet not a simple media type
    for _ in range(n):
        f, v = r.choice(G.FEATURES + [("color", "2"), ("min-width", "1.5em"), ("device-aspect-ratio", None), ("min-width", "0.0000001px"), ("max-width", "1.23456789px"), ("color", "RGB(1, 2, 3)"), ("min-height", "2.99999999em"), ("a", "x\\2c y"), ("b\\3a c", "1")])
        parts.append(f"({f}: {v})" if v else f"({f})")
    # (the keyword in any letter case, with or without white space in front of the bracket)
    return parts[0] + "".join(r.choice([" and ", " and ", " AND ", " And ", " and", " AND", " And"]) + p_ for p_ in parts[1:])


def ref_simple(text):
    """reference classification from the text alone: a query is a simple media type iff it is one identifier -
    no 'not' / 'only', no feature.  Returns the lower-cased type or None."""
    t = (text or "").strip().lower().split()
    if len(t) == 1 and "(" not in t[0] and t[0] not in ("not", "only", "and"):
        return t[0]
    return None


def canon(cu, text):
    """canonical text + simple type of a single query (stand-alone MediaQuery, log mode)"""
    mode = cu.log.raiseExceptions
    cu.log.raiseExceptions = False
    try:
        k, q = lib.call(cu.stylesheets.MediaQuery, text)
    finally:
        cu.log.raiseExceptions = mode
    if k != "ok" or not q.wellformed:
        if text not in BAD_Q and text.strip() and text not in ("3d", "bogus"):
            # well-formed by construction (the generator only writes known types and features): the library's own
            # verdict is not taken for granted
            raise Viol("wellformed_query_accepted", "wellformed-rejected", f"the media query {text!r} is rejected ({q!r})")
        return None
    if text in BAD_Q:
        raise Viol("malformed_query_rejected", "malformed-accepted", f"the malformed media query {text!r} is accepted as {q.mediaText!r}")
    return (q.mediaText, ref_simple(q.mediaText))


class World:
    def __init__(self, cfg):
        import cssutils

        self.cu = cu = cssutils
        self.cfg = cfg
        self.stats = collections.Counter()
        self.log = simlog.install()
        cu.log.raiseExceptions = False
        o = cfg["owner"]
        init = cfg["init"]
        self.rule = None
        if o == "none":
            self.ml = cu.stylesheets.MediaList(init)
        elif o == "media":
            self.rule = cu.css.CSSMediaRule(mediaText=init or "all")
            self.rule.insertRule("a { left: 0 }")
            self.ml = self.rule.media
        else:
            self.rule = cu.css.CSSImportRule(href="x.css", mediaText=init or "all")
            self.ml = self.rule.media
        cu.log.raiseExceptions = cfg["raise"]
        self.model = self.observe()  # list of (canonical text, simple type or None)

    def observe(self):
        out = []
        for i in self.ml:
            text, reported = i.value.mediaText, (i.value.mediaType or "").lower() or None
            if reported != ref_simple(text):
                raise Viol("simple_type_classification", "mediaType", f"the query {text!r} reports mediaType {i.value.mediaType!r}; by its text it is {'the simple type ' + repr(ref_simple(text)) if ref_simple(text) else 'not a simple media type'}")
            out.append((text, reported))
        return out

    def has_all(self, m=None):
        return any(t == "all" for _, t in (self.model if m is None else m))

    # ------------------------------------------------------------------ invariants
    def check(self, where, predicted=True):
        cu, ml = self.cu, self.ml
        self.stats["oracle"] += 1
        try:
            k, live = "ok", self.observe()
        except Viol:
            raise
        except Exception as e:  # noqa: BLE001
            k, live = "exc", e
        if k != "ok":
            raise Viol("iteration_total", f"{where}:iter-raises:{lib.ename(live)}", f"iterating the list raised {live!r}")
        if predicted and [c for c, _ in live] != [c for c, _ in self.model]:
            raise Viol("ordered_set_model", f"{where}:model", f"after {where}: list {live} != model {self.model}")
        if not predicted:
            self.model = live
        # canonical form
        simple = [t for _, t in live if t]
        if len(simple) != len(set(simple)):
            raise Viol("canonical_form", f"{where}:duplicate-type", f"after {where}: a simple media type occurs twice: {live}")
        if "all" in simple and len(live) != 1:
            raise Viol("canonical_form", f"{where}:all-not-collapsed", f"after {where}: list contains 'all' but is {live}")
        k, text = lib.call(lambda: ml.mediaText)
        if k != "ok":
            raise Viol("serialise", f"{where}:mediaText-raises:{lib.ename(text)}", f"mediaText raised {text!r}")
        if not live and text != "all":
            raise Viol("canonical_form", f"{where}:empty-not-all", f"empty list serialises as {text!r}")
        # count / indexing / iteration agree
        k, n = lib.call(lambda: (ml.length, len(ml), len(list(ml))))
        if k != "ok":
            raise Viol("count_index_iteration", f"{where}:len-raises:{lib.ename(n)}", f"{n!r}")
        if not (n[0] == n[2] == len(live)) or n[1] != n[0]:
            raise Viol("count_index_iteration", f"{where}:counts-differ", f"length={n[0]} len()={n[1]} iteration={n[2]} for {text!r}")
        for i in range(len(live)):
            k, it = lib.call(ml.item, i)
            if k != "ok":
                raise Viol("count_index_iteration", f"{where}:item-raises:{lib.ename(it)}", f"item({i}) raised {it!r} for {text!r}")
            want = live[i][1]
            if ((it or "").lower() or None) != want:
                raise Viol("count_index_iteration", f"{where}:item-differs", f"item({i})={it!r} but iteration gives type {want!r} for {text!r}")
        k, it = lib.call(ml.item, len(live))
        if k != "ok" or it is not None:
            raise Viol("count_index_iteration", f"{where}:item-out-of-range", f"item(length) -> {it!r}")
        # the text reparses to an equal list
        mode = cu.log.raiseExceptions
        cu.log.raiseExceptions = False
        try:
            k, m2 = lib.call(cu.stylesheets.MediaList, text)
        finally:
            cu.log.raiseExceptions = mode
        if k != "ok" or not m2.wellformed:
            raise Viol("text_reparses_equal", f"{where}:reparse-fails", f"mediaText {text!r} does not reparse ({m2!r})")
        again = [i.value.mediaText for i in m2]
        mine = [c for c, _ in live] or ["all"]
        if again != mine:
            raise Viol("text_reparses_equal", f"{where}:reparse-differs", f"mediaText {text!r} reparses to {again}, live list is {mine}")
        if any("(" in c or " " in c for c, _ in live):
            self.stats["probe:structured_query_kept"] += 1
        if "/*" in text:
            self.stats["probe:list_with_comment"] += 1

    # ------------------------------------------------------------------ operations
    def step(self, op):
        cu, ml, k = self.cu, self.ml, op["op"]
        predicted = True
        out = "?"
        if k == "append":
            c = canon(cu, op["q"])
            kk, v = lib.call(ml.appendMedium, op["q"])
            if kk == "exc":
                self.stats["unexpected:append:" + lib.ename(v)] += 1
                return "exc"
            if c is None:
                # malformed medium: rejected (raise mode: DOM exception; log mode: returns False), unchanged
                if kk == "ok" and v:
                    raise Viol("malformed_rejected", "append:malformed-accepted", f"appendMedium({op['q']!r}) returned {v!r}")
                self.stats["fault:MALFORMED"] += 1
                out = "rejected"
            elif self.has_all():
                if kk == "ok" and self.cfg["raise"]:
                    raise Viol("append_to_all_rejected", "append:to-all-accepted", f"appendMedium({op['q']!r}) on {self.model} did not raise")
                self.stats["probe:append_to_all_rejected"] += 1
                out = "rejected"
            elif not self.model:
                predicted = False  # empty list: observed
                out = "observed"
            else:
                text, t = c
                if t == "all":
                    self.model = [c]
                    self.stats["probe:all_collapses"] += 1
                elif t and any(t == t2 for _, t2 in self.model):
                    self.model = [e for e in self.model if e[1] != t] + [c]
                    self.stats["probe:append_present_type_moves"] += 1
                else:
                    self.model = self.model + [c]
                if kk != "ok":
                    raise Viol("append_accepted", f"append:raises:{lib.ename(v)}", f"appendMedium({op['q']!r}) on a list without 'all' raised {v!r}")
                self.stats["accepted"] += 1
                out = "accepted"
        elif k == "delete":
            t = op["t"].lower()
            kk, v = lib.call(ml.deleteMedium, op["t"])
            if kk == "exc":
                self.stats["unexpected:delete:" + lib.ename(v)] += 1
                return "exc"
            if any(t == t2 for _, t2 in self.model):
                if kk != "ok":
                    raise Viol("delete_present", f"delete:raises:{lib.ename(v)}", f"deleteMedium({op['t']!r}) on {self.model} raised {v!r}")
                self.model = [e for e in self.model if e[1] != t]
                self.stats["accepted"] += 1
                out = "deleted"
            else:
                if kk == "ok" and self.cfg["raise"]:
                    raise Viol("delete_absent_rejected", "delete:absent-accepted", f"deleteMedium({op['t']!r}) on {self.model} did not raise")
                self.stats["probe:delete_absent_rejected"] += 1
                out = "rejected"
        elif k == "text":
            text = op["text"]
            parts = op["parts"]
            cs = [canon(cu, p) for p in parts]
            kk, v = lib.call(setattr, ml, "mediaText", text)
            if kk == "exc":
                self.stats["unexpected:text:" + lib.ename(v)] += 1
                return "exc"
            if any(c is None for c in cs) or not cs:
                if kk == "ok" and self.cfg["raise"]:
                    raise Viol("malformed_rejected", "text:malformed-accepted", f"mediaText = {text!r} (a malformed member) did not raise; list is now {lib.call(lambda: ml.mediaText)[1]!r}")
                self.stats["probe:malformed_query_rejects_list"] += 1
                self.stats["fault:MALFORMED"] += 1
                out = "rejected"
            else:
                if kk != "ok":
                    raise Viol("wellformed_text_accepted", f"text:raises:{lib.ename(v)}", f"mediaText = {text!r} raised {v!r}")
                m = []
                for c in cs:
                    if c[1] == "all":
                        m = [c]
                        self.stats["probe:all_collapses"] += 1
                        break
                    if c[1] and any(c[1] == t2 for _, t2 in m):
                        continue
                    m.append(c)
                self.model = m
                self.stats["accepted"] += 1
                out = "accepted"
        elif k == "setitem":
            n = len(self.model)
            if not n:
                return "empty"
            i = op["i"] % n
            c = canon(cu, op["q"])
            kk, v = lib.call(ml.__setitem__, i, op["q"])
            if kk == "exc":
                self.stats["unexpected:setitem:" + lib.ename(v)] += 1
                return "exc"
            if c is None:
                self.stats["fault:MALFORMED"] += 1
                out = "rejected"  # unchanged (model comparison below)
            else:
                # the assigned query takes the place; 'all' is the only medium, a simple type is kept once -
                # nothing else leaves the list
                if c[1] == "all":
                    self.model = [c]
                else:
                    self.model = [c if j == i else e for j, e in enumerate(self.model) if j == i or not (c[1] and e[1] == c[1])]
                if kk != "ok":
                    raise Viol("setitem_accepted", f"setitem:raises:{lib.ename(v)}", f"list[{i}] = {op['q']!r} raised {v!r}")
                self.stats["accepted"] += 1
                out = "accepted"
        elif k in ("member_text", "member_type"):
            # one member of the list is edited through the query object itself
            n = len(self.model)
            if not n:
                return "empty"
            i = op["i"] % n
            q = list(ml)[i].value
            if k == "member_text":
                c = canon(cu, op["q"])
            else:
                # the media type is replaced, the rest of the query stays
                t_ = op["q"].lower()
                old = self.model[i]
                c = None
                if t_ in [m.lower() for m in cu.stylesheets.MediaQuery.MEDIA_TYPES]:
                    if old[1]:
                        c = (op["q"], t_)
                    else:
                        c = "observe"
            if c not in (None, "observe") and c[1] and any(c[1] == e[1] for j, e in enumerate(self.model) if j != i) or (c not in (None, "observe") and c[1] == "all" and n > 1):
                return "would-break-set"  # the list is not asked: duplicates would be the caller's doing
            kk, v = lib.call(setattr, q, "mediaText" if k == "member_text" else "mediaType", op["q"])
            if kk == "exc":
                self.stats[f"unexpected:{k}:" + lib.ename(v)] += 1
                return "exc"
            if c is None:
                self.stats["fault:MALFORMED"] += 1
                self.stats["probe:rejected_edit_of_member"] += 1
                out = "rejected"  # unchanged, in both error modes
            elif c == "observe":
                predicted = False
                out = "observed"
            else:
                if kk != "ok":
                    raise Viol("member_edit_accepted", f"{k}:raises:{lib.ename(v)}", f"{k}({op['q']!r}) on member {i} of {self.model} raised {v!r}")
                self.model = [c if j == i else e for j, e in enumerate(self.model)]
                self.stats["accepted"] += 1
                out = "accepted"
        elif k == "delitem":
            n = len(self.model)
            if not n:
                return "empty"
            kk, v = lib.call(ml.__delitem__, op["i"] % n)
            predicted = False
            out = "ok" if kk == "ok" else "rejected:" + lib.ename(v)
        elif k == "restart":
            out = self.restart()
        else:
            raise ValueError(k)
        self.stats[f"op:{k}:{out.split(':')[0]}"] += 1
        self.check(k, predicted)
        return out

    def restart(self):
        cu = self.cu
        if self.rule is None:
            return "noowner"
        mode = cu.log.raiseExceptions
        cu.log.raiseExceptions = False
        try:
            k, text = lib.call(lambda: self.rule.cssText)
            if k != "ok" or not text:
                return "noser"
            k, s = lib.call(lambda: cu.CSSParser(fetcher=lambda u: None).parseString(text))
        finally:
            cu.log.raiseExceptions = mode
        self.stats["oracle"] += 1
        self.stats["probe:restart_via_owner"] += 1
        if k != "ok" or len(s.cssRules) != 1:
            raise Viol("restart_via_owner", "restart:rule-lost", f"{text!r} reparses to {len(s.cssRules) if k == 'ok' else s!r} rules")
        got = [i.value.mediaText for i in s.cssRules[0].media]
        want = [c for c, _ in self.model]
        if (got or ["all"]) != (want or ["all"]):
            raise Viol("restart_via_owner", "restart:media-differs", f"{text!r} reparses with media {got}, live list {want}")
        return "same"

    def finish(self):
        self.check("finish")
        if self.rule is not None:
            self.restart()

    def state(self):
        return (self.cfg["owner"], tuple(t or "Q" for _, t in self.model))


BAD_Q = ["screen and (color: rgb())", "tv and (color: hsl(120))", "(x: rgba(255))", "print and (min-width: )", "print and", "screen and (x", "3d", "(", "and", "print screen", "not", "tv and and (color)", "x-unknown", "print and (color", "only", "(color) and"]


def gen_q(r, bad):
    if r.random() < bad:
        return r.choice(BAD_Q)
    k = r.random()
    if k < 0.5:
        return r.choice(SIMPLE)
    if k < 0.55:
        return r.choice(SIMPLE).upper()  # media types are case-insensitive
    if k < 0.65:
        return r.choice(["all", "all", "ALL"])
    return structured(r)


def gen_op(r, w, i):
    cfg = w.cfg
    if i >= cfg["n_ops"]:
        return None
    bad = cfg["bad_rate"]
    k = r.choice(["append", "append", "append", "delete", "delete", "text", "text", "setitem", "delitem", "restart", "member"])
    if k == "member":
        if r.random() < 0.6:
            return {"op": "member_text", "i": r.randrange(0, 6), "q": gen_q(r, max(bad, 0.4))}
        return {"op": "member_type", "i": r.randrange(0, 6), "q": r.choice(SIMPLE + ["all", "3d", "bogus", "PRINT"])}
    if k == "append":
        return {"op": k, "q": gen_q(r, bad)}
    if k == "delete":
        return {"op": k, "t": r.choice(SIMPLE + ["all"])}
    if k == "text":
        parts = [gen_q(r, bad * 0.5) for _ in range(r.choice([1, 1, 2, 3, 4]))]
        if r.random() < 0.3:
            parts.append(r.choice(parts))  # duplicate
        sep = r.choice([", ", ",", " , "])
        text = sep.join(parts)
        if r.random() < 0.2:
            text = "/*c*/ " + text
        return {"op": k, "text": text, "parts": parts}
    if k == "setitem":
        return {"op": k, "i": r.randrange(0, 6), "q": gen_q(r, bad)}
    if k == "delitem":
        return {"op": k, "i": r.randrange(0, 6)}
    return {"op": "restart"}
