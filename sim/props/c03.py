"""C03 - serialise then parse is lossless; serialisation is a fixpoint.

What simulation decides: the clause "and after any accepted DOM edits" - the states are those reached
by edit histories - checked as crash-recovery with cssText as the only durable form: Restart (whole
sheet: serialise -> drop everything -> reparse, directly / through a scratch file / through SimNet)
and NodeRestart (read the text of one rule, declaration block, selector, media list or property value
and set it on a fresh object of the same class).
"""
import collections
import os
import shutil
import tempfile

from sim.gen import css as G
from sim.kit import lib
from sim.kit.runner import Viol
from sim.obs import project as P
from sim.world import simlog, simnet

ID = "C03"
FORK = True
RUNS = {"quick": 8000, "thorough": 150_000}
RULE = "run = sheet parsed from a well-formed generated source (content over the full character range: both quote kinds, backslashes, CSS escapes, line breaks, non-ASCII, comments at rule and declaration level) + seeded history of accepted edits + Restart / NodeRestart steps; after every restart the projection and the bytes must be identical"
REAL = ["cssutils/serialize.py", "cssutils/helper.py (string, uri escaping)", "cssutils/tokenize2.py", "cssutils/css/* (all rule classes, values, selectors)", "parser for the restart"]
STUBS = ["SimNet fetcher for @import targets", "scratch file", "SimLog"]
ASSUMPTIONS = [
    "equality is taken modulo the documented effect of the default preferences: rules whose own serialisation is empty are not expected back",
    "@variables / var() are not generated (resolveVariables=True makes the serialisation differ from the DOM by design)",
    "coverage of input spellings is whatever the renderer produces (input generation); the simulation-level clause is the edit history + restart",
]
PROBES = ["restart_after_ge5_edits", "string_with_both_quotes", "escaped_digit_class", "block_ending_in_comment", "node_restart", "restart_via_file", "restart_via_net", "non_ascii_content", "backslash_content"]

STR_CONTENT = ["x\\5c b", "x\\5c", "x", "a b", "it's", 'say "hi"', "a'b\"c", "back\\slash", "tab\there", "é€中", "\U0001f600", "semi;colon", "brace}", "paren)", "/*no comment*/", "new\nline", "\\41 bc", "trailing\\", " lead", "", "a\\\nb"]
IDENT_SPELL = ["a", "foo", "x1", "a-b", "_u", "-v", "né", "\\31 a", "\\31 23", "a\\.b", "a\\ b", "\\--x", "\\41 bc", "a\\c b", "\\e9 t", "\\1f600 x", "中", "a\\{b", "\\#h",
               # hex escapes of characters that are no name characters (delimiters of the syntax around them)
               "a\\7b ", "a\\20 b", "a\\2c b", "a\\3e b", "a\\2e b", "a\\3b b", "a\\3a b", "a\\7c b", "b\\  c", "x\\ ", "a\\5c b", "a\\a "]
URLS = ["x.png", "a b.png", "a(b).png", "a'b.png", 'a"b.png', "é.png", "path/to/x.png?q=1&r=2#f", "data:image/png;base64,AAAA==", "a\\b.png", "", "x y(z)'.png"]
COMMENTS = ["\\2a/ x", "a \\5c b", "c", " spaced ", "é€", "with * star", "with / slash", "a\nb", "\\41", "}{;", "'\"", "", "caf\u00e9\n  (c)", "3 \u20ac\nTTC", "\u03ba\n", "\u00e9\r\nx", "\u00e9 x", "\u00e9a", "\u00e91",
            # several lines whose first character is part of a would-be opener or closer ('/*/', '/**'), and lines that
            # look like openers, closers or quotes further down
            "/ mac ie5\nsecond line ", "*\n * doc\n ", "/\n/", "x /* opener\ny", "q \"\nz' ", "/* \n /*/ \n"]


def css_string(r, content):
    """render a string literal in a random valid spelling"""
    q = r.choice(['"', "'"])
    out = ""
    for ch in content:
        if ch == q or ch == "\\":
            out += "\\" + ch
        elif ch == "\n":
            out += r.choice(["\\a ", "\\A ", "\\00000a"])  # (terminated: the next character may be a hex digit)
        elif ord(ch) > 127 and r.random() < 0.3:
            out += "\\%x " % ord(ch)
        else:
            out += ch
    return q + out + q


def css_url(r, u):
    k = r.random()
    if k < 0.4 and not any(c in u for c in " ()'\"\\"):
        return f"url({u})"
    return "url(" + css_string(r, u) + ")"


def comment(r):
    return "/*" + r.choice(COMMENTS).replace("*/", "* /") + "*/"


def value(r):
    k = r.random()
    if k < 0.2:
        return css_string(r, r.choice(STR_CONTENT))
    if k < 0.35:
        return css_url(r, r.choice(URLS))
    if k < 0.5:
        return r.choice(["1px", "-1.5em", "0", "+.5", "1e3", "100%", "0.0", "010px", "1.50", "-0", ".5em"])
    if k < 0.6:
        return r.choice(["red", "#fff", "#FFF", "#a1b2c3", "rgb(1,2,3)", "rgba( 0 , 0 , 0 , .5 )", "hsl(120,50%,50%)", "RED"])
    if k < 0.7:
        return r.choice(["calc(1px + 2px)", "calc( (1px*2) - 3px )", "f(1, g(2))", "attr(title)", "counter(c, disc)", "U+0-7F", "u+00??", "a/b", "1/2", "a,b"])
    return r.choice(IDENT_SPELL + ["inherit", "AUTO", "sans-serif"])


def declaration(r):
    name = r.choice(["color", "background", "content", "font-family", "x-y", "-moz-z", "MARGIN", "c\\olor", "width", "font"])
    vals = " ".join(value(r) for _ in range(r.choice([1, 1, 2, 3])))
    if r.random() < 0.15:
        vals = vals.replace(" ", r.choice([" , ", ",", " / ", " /*v*/ "]), 1)
    if r.random() < 0.12:
        vals = vals + " " + comment(r)  # a (possibly multi-line) comment after the last component
    prio = r.choice(["", "", "", " !important", "!IMPORTANT", " ! important", " !/*p*/important"])
    sp = r.choice([":", ": ", " : ", ":/*c*/"])
    return f"{name}{sp}{vals}{prio}"


def block(r, trailing_comment=None):
    parts = []
    for _ in range(r.choice([0, 1, 1, 2, 3])):
        parts.append(declaration(r))
        if r.random() < 0.15:
            parts.append(comment(r))
    if trailing_comment or (trailing_comment is None and r.random() < 0.25):
        parts.append(comment(r))
    out = ""
    for p in parts:
        out += p + ("" if p.startswith("/*") else r.choice([";", "; ", ";\n", " ;"]))
    if out.rstrip().endswith(";") and r.random() < 0.3:
        out = out.rstrip()[:-1]
    return out


def simple_sel(r):
    s = r.choice(["a", "div", "*", "", r.choice(IDENT_SPELL[:8])])
    for _ in range(r.choice([0, 1, 1, 2])):
        k = r.random()
        if k < 0.35:
            s += "." + r.choice(IDENT_SPELL)
        elif k < 0.5:
            s += "#" + r.choice(["i", "a-b", "\\31 x", "né"])
        elif k < 0.7:
            s += "[" + r.choice(["t", "x-y", "né"]) + r.choice(["", "=v", "=" + css_string(r, r.choice(STR_CONTENT[:10])), "~=a", "|=" + css_string(r, "en")]) + "]"
        elif k < 0.9:
            s += ":" + r.choice(["hover", "first-child", "nth-child(2n+1)", "nth-child( 2n + 1 )", "lang(en)", "not(.k)", "not( #i )", "NOT(a)"])
        else:
            s += r.choice(["::after", ":before", "::first-line"])
    return s or "*"


def selector(r):
    s = simple_sel(r)
    for _ in range(r.choice([0, 0, 1, 2])):
        s += r.choice([" ", " > ", "+", " ~ ", ">", " /*c*/ "]) + simple_sel(r)
    return s


def style_rule(r):
    sels = r.choice([", ", ",", " ,\n"]).join(selector(r) for _ in range(r.choice([1, 1, 2, 3])))
    return f"{sels} {{ {block(r)} }}"


def media_rule(r, depth=0):
    inner = " ".join(rule(r, r.choice(["style", "style", "comment", "page"] + (["media"] if depth < 1 else [])), depth + 1) for _ in range(r.choice([0, 1, 2])))
    return f"@media {G.media_list(r)} {{ {inner} }}"


def rule(r, kind, depth=0):
    if kind == "style":
        return style_rule(r)
    if kind == "media":
        return media_rule(r, depth)
    if kind == "page":
        margin = f" @{r.choice(['top-left', 'bottom-center'])} {{ {block(r, False) or 'margin: 0'} }}" if r.random() < 0.4 else ""
        return f"@page {r.choice(['', ':first', ':left', 'named', 'named:first'])} {{ {block(r)}{margin} }}"
    if kind == "fontface":
        return f"@font-face {{ font-family: {css_string(r, r.choice(STR_CONTENT[:8]))}; src: {css_url(r, r.choice(URLS[:8]))} }}"
    if kind == "comment":
        return comment(r)
    if kind == "import":
        h = r.choice(["a.css", "b.css", "a b.css", "é.css"])
        # (comments in front of the href; a comment *behind* the href is read as part of the media query that follows
        # it or is set later - the same comment in another place of the DOM: left out, see DESIGN 9.4)
        return "@import " + r.choice(["", "", "/*c*/ ", "/*a*/ /*b*/ "]) + r.choice([css_url(r, h), css_string(r, h)]) + r.choice(["", " print", " screen, tv", " all", " print and (color)"]) + r.choice(["", "", ' "name"']) + ";"
    if kind == "namespace":
        return r.choice(['@namespace "u0";', '@namespace p "u1";', "@namespace q url(u2);", "@namespace p 'it''s';".replace("''", "\\'")])
    if kind == "unknown":
        return r.choice(["@foo bar;", "@x { y: z }", "@three-dee { a { b: c } }", "@foo 'str' 1px url(x) { }", "@-moz-doc url(x) { a { b: c } }", "@foo /*c*/ bar;"])
    if kind == "charset":
        return '@charset "utf-8";'
    raise ValueError(kind)


def sheet_text(r):
    parts = []
    if r.random() < 0.15:
        parts.append(rule(r, "charset"))
    for _ in range(r.choice([0, 0, 1])):
        parts.append(rule(r, "import"))
    for _ in range(r.choice([0, 0, 1, 2])):
        parts.append(rule(r, "namespace"))
    for _ in range(r.randrange(1, 6)):
        parts.append(rule(r, r.choice(["style", "style", "style", "media", "page", "fontface", "comment", "unknown"])))
    return r.choice(["\n", " ", ""]).join(parts)


def config(rs, run, tier):
    r = rs("config")
    return {"n_ops": 1 + r.choice([1, 2, 3, 4, 6, 8, 12, 25, 60]), "sheet": sheet_text(rs("content")), "via": r.choice(["string", "string", "file", "net"])}


def margin_comment_hazard(sheet):
    """a margin box whose declaration block holds nothing but comments (known finding, pinned by the suite: it serialises as '')"""
    for r in flat(sheet):
        if r.typeString == "MARGIN_RULE" and r.style.length == 0 and "/*" in (lib.call(lambda: r.style.cssText)[1] or ""):
            return True
    return False


def flat(container):
    out = []
    for r in container.cssRules:
        out.append(r)
        if r.typeString in ("MEDIA_RULE", "PAGE_RULE"):
            out.extend(flat(r))
    return out


def _no_s(p):
    """selector item sequences are compared modulo white space items (the serialiser normalises them)"""
    if isinstance(p, tuple):
        if len(p) == 2 and p[0] == "S":
            return None
        out = tuple(x for x in (_no_s(i) for i in p) if x is not None or True)
        return tuple(x for x in out if not (isinstance(x, tuple) and len(x) == 0 and False))
    return p


def _strip_s(p):
    if isinstance(p, tuple):
        return tuple(_strip_s(i) for i in p if not (isinstance(i, tuple) and len(i) == 2 and i[0] == "S"))
    return p


def live_projection(sheet):
    """projection of what the default preferences are documented to keep"""

    def keep(r):
        k, t = lib.call(lambda: r.cssText)
        return k == "ok" and bool(t)

    def proj(container, depth=0):
        out = []
        for r in container.cssRules:
            if not keep(r):
                continue
            p = P.p_rule(r)
            if p[0] == "MEDIA_RULE":
                p = p[:3] + (tuple(proj(r, depth + 1)),)
            elif p[0] == "PAGE_RULE":
                p = p[:3] + (tuple(P.p_rule(m) for m in r.cssRules if keep(m)),)
            elif p[0] == "IMPORT_RULE":
                p = p[:4]
            out.append(p)
        return out

    return (sheet.encoding, tuple(sorted(sheet.namespaces.items())), _strip_s(tuple(proj(sheet))))


class World:
    def __init__(self, cfg):
        import cssutils

        self.cu = cu = cssutils
        self.cfg = cfg
        self.stats = collections.Counter()
        self.soft = []
        self.log = simlog.install()
        self.net = simnet.SimNet({}, self.stats)
        self.tmp = None
        cu.log.raiseExceptions = False
        self.fetch = lambda u: (None, "i { top: 0 }")
        self.sheet = cu.CSSParser(fetcher=self.fetch).parseString("", href="http://h/root.css")
        self.edits = 0

    def load(self, t):
        cu = self.cu
        self.sheet = cu.CSSParser(fetcher=self.fetch).parseString(t, href="http://h/root.css")
        if "\\31 " in t:
            self.stats["probe:escaped_digit_class"] += 1
        if any(ord(c) > 127 for c in t):
            self.stats["probe:non_ascii_content"] += 1
        if "\\\\" in t:
            self.stats["probe:backslash_content"] += 1
        self.stats["accepted"] += 1
        return "loaded"

    def close(self):
        if self.tmp:
            shutil.rmtree(self.tmp, ignore_errors=True)

    def restart(self, via):
        cu, s = self.cu, self.sheet
        k, b = lib.call(lambda: s.cssText)
        if k != "ok":
            raise Viol("serialise", f"sheet.cssText:raises:{lib.ename(b)}", f"{b!r}")
        if via == "file":
            self.tmp = self.tmp or tempfile.mkdtemp(prefix="simfs-c03-")
            path = os.path.join(self.tmp, "s.css")
            with open(path, "wb") as f:
                f.write(b)
            k, s2 = lib.call(lambda: cu.CSSParser(fetcher=self.fetch).parseFile(path, href="http://h/root.css"))
            self.stats["probe:restart_via_file"] += 1
        elif via == "net":
            docs = {"http://h/root.css": (s.encoding, b)}
            f = lambda u: docs.get(u) or self.fetch(u)  # noqa: E731
            k, s2 = lib.call(lambda: cu.CSSParser(fetcher=f).parseUrl("http://h/root.css"))
            self.stats["probe:restart_via_net"] += 1
        else:
            k, s2 = lib.call(lambda: cu.CSSParser(fetcher=self.fetch).parseString(b, href="http://h/root.css"))
        if k != "ok" or s2 is None:
            raise Viol("restart_lossless", f"restart:reparse-fails:{lib.ename(s2) if k != 'ok' else 'None'}", f"{b!r}: {s2!r}")
        self.stats["oracle"] += 2
        if self.edits >= 5:
            self.stats["probe:restart_after_ge5_edits"] += 1
        a, p2 = live_projection(s), live_projection(s2)
        if via == "net":
            # served with its transport charset: an @charset rule is added on arrival
            a = (p2[0], a[1], tuple(x for x in a[2] if x[0] != "CHARSET_RULE"))
            p2 = (p2[0], p2[1], tuple(x for x in p2[2] if x[0] != "CHARSET_RULE"))
        if a != p2 and margin_comment_hazard(s):
            self.soft.append({"inv": "restart_lossless", "sig": "restart:comment-only-margin-box-dropped", "detail": f"a comment inside the declaration block of a margin rule does not come back: {b[:300]!r}"})
            return "known"
        if a != p2:
            where, x, y = _locate(a, p2)
            raise Viol("restart_lossless", f"restart:{where}", f"{where}: live {x!r} comes back as {y!r}; serialisation {b[:400]!r}")
        k, b2 = lib.call(lambda: s2.cssText)
        if k == "ok" and b2 != b and margin_comment_hazard(s):
            self.soft.append({"inv": "restart_lossless", "sig": "restart:comment-only-margin-box-dropped", "detail": f"{b[:300]!r}"})
            return "known"
        if k != "ok" or (b2 != b and via != "net"):
            raise Viol("serialisation_fixpoint", "restart:bytes-differ", f"{b!r} reparsed serialises as {b2!r}")
        return "same"

    def node_restart(self, op):
        cu, s = self.cu, self.sheet
        rules = flat(s)
        if not rules:
            return "norule"
        r = rules[op["i"] % len(rules)]
        what = op["what"]
        self.stats["probe:node_restart"] += 1

        def roundtrip(text, make, read, proj, sig):
            k, obj = lib.call(make, text)
            self.stats["oracle"] += 1
            if k != "ok":
                raise Viol("node_restart_lossless", f"{sig}:set-back-raises:{lib.ename(obj)}", f"{sig}: own text {text!r} cannot be set on a fresh object: {obj!r}")
            t2 = read(obj)
            if t2 != text:
                raise Viol("serialisation_fixpoint", f"{sig}:text-differs", f"{sig}: {text!r} set on a fresh object reads back {t2!r}")
            return obj

        ns = dict(s.namespaces.items())
        t = r.typeString
        if what == "rule":
            k, text = lib.call(lambda: r.cssText)
            if k != "ok" or not text:
                return "empty"
            cls = type(r)
            if t == "STYLE_RULE":
                obj = roundtrip(text, lambda x: _with(cls(), "cssText", (x, ns)), lambda o: o.cssText, None, "CSSStyleRule.cssText")
                if _strip_s(P.p_rule(obj)[1:]) != _strip_s(P.p_rule(r)[1:]):
                    raise Viol("node_restart_lossless", "CSSStyleRule.cssText:projection", f"{text!r}: {P.p_rule(r)!r} -> {P.p_rule(obj)!r}")
            elif t in ("PAGE_RULE", "MEDIA_RULE") and any(m.typeString == "MARGIN_RULE" and "/*" in (lib.call(lambda: m.style.cssText)[1] or "") for m in flat(r)):
                self.soft.append({"inv": "restart_lossless", "sig": "restart:comment-only-margin-box-dropped", "detail": f"node restart of {text[:200]!r}"})
                return "known"
            elif t in ("PAGE_RULE", "FONT_FACE_RULE", "COMMENT", "UNKNOWN_RULE", "NAMESPACE_RULE", "CHARSET_RULE"):
                obj = roundtrip(text, lambda x: _with(cls(), "cssText", x), lambda o: o.cssText, None, f"{cls.__name__}.cssText")
                def pr(x):
                    p = P.p_rule(x)
                    if p[0] == "PAGE_RULE":  # margin boxes without declarations are not serialised
                        p = p[:3] + (tuple(P.p_rule(m) for m in x.cssRules if lib.call(lambda: m.cssText)[1]),)
                    return p

                if t != "UNKNOWN_RULE" and pr(obj) != pr(r):
                    raise Viol("node_restart_lossless", f"{cls.__name__}.cssText:projection", f"{text!r}: {P.p_rule(r)!r} -> {P.p_rule(obj)!r}")
            elif t == "MEDIA_RULE":
                obj = roundtrip(text, lambda x: _with(cls(), "cssText", (x, ns)), lambda o: o.cssText, None, "CSSMediaRule.cssText")
            else:
                return "skip"
        elif what == "style" and hasattr(r, "style"):
            text = r.style.cssText
            obj = roundtrip(text, lambda x: cu.css.CSSStyleDeclaration(x), lambda o: o.cssText, None, "CSSStyleDeclaration.cssText")
            if P.p_style(obj) != P.p_style(r.style):
                raise Viol("node_restart_lossless", "CSSStyleDeclaration.cssText:projection", f"{text!r}: {P.p_style(r.style)!r} -> {P.p_style(obj)!r}")
            if text.rstrip().endswith("*/"):
                self.stats["probe:block_ending_in_comment"] += 1
        elif what == "selector" and t == "STYLE_RULE":
            text = r.selectorText
            obj = roundtrip(text, lambda x: cu.css.SelectorList((x, ns)), lambda o: o.selectorText, None, "SelectorList.selectorText")
            if _strip_s(P.p_selectorlist(obj)) != _strip_s(P.p_selectorlist(r.selectorList)):
                raise Viol("node_restart_lossless", "SelectorList.selectorText:projection", f"{text!r}: {P.p_selectorlist(r.selectorList)!r} -> {P.p_selectorlist(obj)!r}")
        elif what == "media" and hasattr(r, "media") and t in ("MEDIA_RULE", "IMPORT_RULE"):
            text = r.media.mediaText
            obj = roundtrip(text, lambda x: cu.stylesheets.MediaList(x), lambda o: o.mediaText, None, "MediaList.mediaText")
        elif what == "value" and hasattr(r, "style"):
            props = r.style.getProperties(all=True)
            if not props:
                return "noprop"
            p = props[op["j"] % len(props)]
            text = p.propertyValue.cssText
            if not text:
                return "empty"
            obj = roundtrip(text, lambda x: cu.css.PropertyValue(x), lambda o: o.cssText, None, "PropertyValue.cssText")
            a = tuple(P.p_value(v) for v in p.propertyValue)
            b = tuple(P.p_value(v) for v in obj)
            if a != b:
                raise Viol("node_restart_lossless", "PropertyValue.cssText:projection", f"{text!r}: {a!r} -> {b!r}")
            if '"' in text and "'" in text:
                self.stats["probe:string_with_both_quotes"] += 1
        else:
            return "n/a"
        return "same"

    def step(self, op):
        cu, s, k = self.cu, self.sheet, op["op"]
        out = "?"
        if k == "load":
            out = self.load(op["text"])
        elif k == "restart":
            self.stats["fault:RESTART_" + op.get("via", "string").upper()] += 1  # crash point: only cssText survives
            out = self.restart(op.get("via", "string"))
        elif k == "node_restart":
            self.stats["fault:NODE_RESTART"] += 1
            out = self.node_restart(op)
        else:
            rules = flat(s)
            if k == "add":
                kk, v = lib.call(s.add, op["text"])
            elif k == "insert":
                kk, v = lib.call(s.insertRule, op["text"], op["index"] % (len(s.cssRules) + 1))
            elif k == "delete":
                kk, v = lib.call(s.deleteRule, op["index"] % (len(s.cssRules) + 1))
            elif k == "media_add":
                ms = [r for r in rules if r.typeString == "MEDIA_RULE"]
                if not ms:
                    return "nomedia"
                kk, v = lib.call(ms[op["i"] % len(ms)].add, op["text"])
            elif k in ("selector", "style", "setprop", "media", "value", "ruletext"):
                pop = {"selector": [r for r in rules if r.typeString == "STYLE_RULE"], "style": [r for r in rules if hasattr(r, "style")], "setprop": [r for r in rules if hasattr(r, "style")], "value": [r for r in rules if hasattr(r, "style") and r.style.length], "media": [r for r in rules if r.typeString in ("MEDIA_RULE", "IMPORT_RULE")], "ruletext": [r for r in rules if r.typeString == "STYLE_RULE"]}[k]
                if not pop:
                    return "notarget"
                r = pop[op["i"] % len(pop)]
                if k == "selector":
                    kk, v = lib.call(setattr, r, "selectorText", op["text"])
                elif k == "style":
                    kk, v = lib.call(setattr, r.style, "cssText", op["text"])
                elif k == "setprop":
                    kk, v = lib.call(r.style.setProperty, op["name"], op["text"], op.get("prio", ""))
                elif k == "value":
                    props = r.style.getProperties(all=True)
                    kk, v = lib.call(setattr, props[op["j"] % len(props)].propertyValue, "cssText", op["text"])
                elif k == "media":
                    if op.get("whole") and r.typeString == "IMPORT_RULE":
                        kk, v = lib.call(setattr, r, "media", op["text"])  # the list is replaced, not edited
                    else:
                        kk, v = lib.call(setattr, r.media, "mediaText", op["text"])
                else:
                    kk, v = lib.call(setattr, r, "cssText", op["text"])
            elif k == "encoding":
                kk, v = lib.call(setattr, s, "encoding", op["value"])
            elif k == "ns_set":
                kk, v = lib.call(s.namespaces.__setitem__, op["prefix"], op["uri"])
            else:
                raise ValueError(k)
            if kk == "ok":
                self.stats["accepted"] += 1
                self.edits += 1
                out = "accepted"
            elif kk == "dom":
                out = "rejected:" + lib.ename(v)
            else:
                self.stats[f"unexpected:{k}:{lib.ename(v)}"] += 1
                out = "exc"
        self.stats[f"op:{k}:{out.split(':')[0]}"] += 1
        return out

    def finish(self):
        self.restart(self.cfg["via"])

    def state(self):
        return (tuple(r.typeString[:3] for r in flat(self.sheet))[:10], self.edits > 0)


def _with(obj, attr, value):
    setattr(obj, attr, value)
    return obj


def _locate(a, b):
    if a[0] != b[0]:
        return "encoding", a[0], b[0]
    if a[1] != b[1]:
        return "namespaces", a[1], b[1]
    for x, y in zip(a[2], b[2]):
        if x != y:
            if x[0] != y[0]:
                return "rule-kind", x[0], y[0]
            for i, (p, q) in enumerate(zip(x, y)):
                if p != q:
                    field = {"STYLE_RULE": ["", "selectors", "declarations"], "MEDIA_RULE": ["", "media", "name", "nested-rules"], "PAGE_RULE": ["", "page-selector", "declarations", "margin-rules"], "IMPORT_RULE": ["", "href", "media", "name"], "FONT_FACE_RULE": ["", "declarations"], "COMMENT": ["", "comment-text"], "UNKNOWN_RULE": ["", "unknown-rule-text"], "NAMESPACE_RULE": ["", "prefix", "uri"]}.get(x[0], [""] * 8)
                    return f"{x[0]}:{field[i] if i < len(field) else i}", p, q
            return x[0], x, y
    return "rule-count", len(a[2]), len(b[2])


def gen_op(r, w, i):
    cfg = w.cfg
    if i == 0:
        return {"op": "load", "text": cfg["sheet"]}
    if i > cfg["n_ops"]:
        return None
    k = r.choice(["restart", "node_restart", "node_restart", "add", "insert", "delete", "media_add", "selector", "style", "setprop", "media", "value", "ruletext", "encoding", "ns_set"])
    if k == "restart":
        return {"op": k, "via": r.choice(["string", "string", "file", "net"])}
    if k == "node_restart":
        return {"op": k, "i": r.randrange(0, 12), "j": r.randrange(0, 6), "what": r.choice(["rule", "style", "selector", "media", "value", "value"])}
    if k == "add":
        t = rule(r, r.choice(["style", "style", "media", "page", "fontface", "comment", "unknown", "import", "namespace"]))
        if t.startswith('@namespace "'):
            t = '@namespace r "u4";'  # a default namespace declared after unprefixed selectors exist is C15's recorded finding
        return {"op": k, "text": t}
    if k == "insert":
        t = rule(r, r.choice(["style", "comment", "unknown", "media", "fontface", "page", "import", "namespace", "fontface"]))
        if t.startswith('@namespace "'):
            t = '@namespace r "u4";'  # (as for add)
        return {"op": k, "text": t, "index": r.randrange(0, 8)}
    if k == "delete":
        return {"op": k, "index": r.randrange(0, 8)}
    if k == "media_add":
        return {"op": k, "i": r.randrange(0, 4), "text": rule(r, r.choice(["style", "comment", "page"]))}
    if k == "selector":
        return {"op": k, "i": r.randrange(0, 8), "text": ", ".join(selector(r) for _ in range(r.choice([1, 2])))}
    if k == "style":
        return {"op": k, "i": r.randrange(0, 8), "text": block(r)}
    if k == "setprop":
        return {"op": k, "i": r.randrange(0, 8), "name": r.choice(["color", "content", "x-y", "background"]), "text": " ".join(value(r) for _ in range(r.choice([1, 2]))), "prio": r.choice(["", "", "important"])}
    if k == "media":
        return {"op": k, "i": r.randrange(0, 4), "text": G.media_list(r), "whole": r.random() < 0.3}
    if k == "value":
        return {"op": k, "i": r.randrange(0, 8), "j": r.randrange(0, 5), "text": " ".join(value(r) for _ in range(r.choice([1, 2, 3])))}
    if k == "ruletext":
        return {"op": k, "i": r.randrange(0, 8), "text": style_rule(r)}
    if k == "encoding":
        return {"op": k, "value": r.choice(["utf-8", "ascii", "iso-8859-1", None, "utf-16"])}
    return {"op": "ns_set", "prefix": r.choice(["p", "q", "r"]), "uri": r.choice(["u1", "u2", "u3"])}


# no text simplification here: dropping characters from a source does not keep it well-formed, and the
# property only speaks about well-formed input (the op list itself is still minimised by ddmin)
