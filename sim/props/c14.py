"""C14 - the profile registry's verdicts depend on its contents, not its history.

World: a private Profiles(log=SimLog) instance driven by seeded histories of addProfile / addProfiles /
removeProfile / removeProfile(all) + re-adding / defaultProfiles assignments, with custom profiles that
introduce new properties, redefine existing ones and define macros that override token macros, general
macros or macros of other profiles (callable validators included).
Oracle: a battery of (name, value) verdicts after every step; (a) recurrence - whenever the ordered
contents equal contents seen earlier in the run, everything observable equals what it was then;
(b) contents == built-ins => equals a brand-new Profiles(); (c) validate == validateWithProfile.valid;
(d) defaultProfiles changes only 'matching'; (e) a rejected removal changes nothing.
"""
import collections

from sim.kit import lib
from sim.kit.runner import Viol
from sim.world import simlog

ID = "C14"
FORK = True
RUNS = {"quick": 5000, "thorough": 100_000}
RULE = "run = private Profiles registry + seeded history of add / bulk add / remove / remove-all+re-add / defaultProfiles / rejected removals over six custom profiles (new properties, redefinitions, macros overriding token / general / profile macros, callable validator); the verdict vector, known names, profile list and per-profile property lists are compared with every earlier state of equal contents and with a fresh registry"
REAL = ["cssutils/profiles.py (Profiles: addProfile(s), removeProfile, _resetProperties, validate, validateWithProfile, defaultProfiles, knownNames, propertiesByProfile)", "cssutils/util.py (LazyRegex)"]
STUBS = ["SimLog log sink"]
ASSUMPTIONS = [
    "contents = the ordered list of registered profile names (each custom name has one fixed definition in the generator's pool); order matters because later profiles' macros override earlier ones",
    "adding a name that is already registered is observed (replace or duplicate), then the invariants are checked on what results",
]
PROBES = ["recurrence_hit", "builtins_only_state", "macro_override_active", "rejected_removal", "default_profiles_restricted", "removed_all_and_readded", "interleaved_removal", "emptied_by_single_removals", "compared_with_direct_build", "refused_addition", "default_profile_removed"]

BATTERY = [
    ("width", "1px"), ("width", "1em"), ("width", "1.5px"), ("width", "bar"), ("width", "5"),
    ("color", "red"), ("color", "blue"), ("color", "baz"), ("color", "#fff"), ("color", "rgb(1,2,3)"),
    ("margin-top", "1px"), ("margin-top", "-1.5em"), ("margin-top", "5"),
    ("border-top-width", "thin"), ("border-top-width", "medium"), ("border-top-width", "1px"),
    ("z-index", "10"), ("z-index", "1.5"), ("opacity", "0.5"), ("opacity", "5"), ("font-size", "12pt"), ("font-size", "5"),
    ("-x-a", "1"), ("-x-a", "foo"), ("-x-a", "12"), ("-x-b", "1px"), ("-x-b", "1em"), ("-x-c", "5"), ("-x-c", "55"),
    ("-x-d", "1px"), ("-x-d", "1em"), ("-x-e", "x"), ("-x-e", "red"), ("-x-e", "blue"), ("-x-f", "ok"), ("-x-f", "no"),
    ("unknown-prop", "1"), ("background-color", "green"), ("text-shadow", "1px 1px red"), ("line-height", "5"),
]


def _ok(v):
    return v == "ok"


CUSTOM = {
    "P1": ({"-x-a": "{num}|foo", "-x-b": "{length}"}, None),
    "P2": ({"width": "auto|{length}|bar", "color": "baz|{color}"}, None),
    "P3": ({"-x-c": "{num}"}, {"num": r"\d"}),
    "P4": ({"-x-d": "{length}"}, {"length": r"{num}(px)"}),
    "P5": ({"-x-e": "{mymacro}|{color}"}, {"color": "red|green", "mymacro": "x|y"}),
    "P6": ({"-x-f": _ok, "border-top-width": "{border-width}"}, {"border-width": "thin"}),
}


SELF_CONTAINED = ("P1", "P3", "P4")  # use token / general macros and their own only: valid in an otherwise empty registry
NOMACROS_OK = ("P3", "P4")  # the properties stay defined without the profile's own macros (general {num} / {length} apply)


def config(rs, run, tier):
    r = rs("config")
    return {"n_ops": r.choice([1, 2, 3, 4, 6, 8, 12, 20, 30]), "names": sorted(r.sample(sorted(CUSTOM), r.randrange(1, 7))), "global": False}


def builtin_triples():
    import cssutils.profiles as P

    C = P.Profiles
    order = [C.CSS_LEVEL_2, C.CSS3_BACKGROUNDS_AND_BORDERS, C.CSS3_BASIC_USER_INTERFACE, C.CSS3_BOX, C.CSS3_COLOR, C.CSS3_FONTS, C.CSS3_FONT_FACE, C.CSS3_PAGED_MEDIA, C.CSS3_TEXT]
    out = []
    for n in order:
        out.append((n, P.properties[n], P.macros[C.CSS3_FONTS] if n == C.CSS3_FONT_FACE else P.macros[n]))
    return out


class World:
    def __init__(self, cfg):
        import cssutils
        import cssutils.profiles as P

        self.cu, self.P = cssutils, P
        self.cfg = cfg
        self.stats = collections.Counter()
        self.log = simlog.install()
        cssutils.log.raiseExceptions = False
        self.reg = P.Profiles(log=cssutils.log)
        self.builtins = list(self.reg.profiles)
        self.seen = {}
        self.shared = {}
        self.variant = {}  # custom name -> "" (pool definition) | "#nm" (same properties, registered without its macros)
        self.refcache = {}
        self.fresh = self.observe(P.Profiles(log=cssutils.log))
        self.removed_any = False
        self.check("init")

    def observe(self, reg):
        vec = []
        for n, v in BATTERY:
            k, a = lib.call(reg.validate, n, v)
            k2, b = lib.call(reg.validateWithProfile, n, v)
            vec.append((a if k == "ok" else "EXC:" + lib.ename(a), b[0] if k2 == "ok" else "EXC:" + lib.ename(b)))
        k, props = lib.call(lambda: list(reg.propertiesByProfile()))
        return (tuple(vec), tuple(sorted(reg.knownNames)), tuple(reg.profiles), tuple(props) if k == "ok" else "EXC:" + lib.ename(props))

    def check(self, where):
        reg = self.reg
        self.stats["oracle"] += 1
        obs = self.observe(reg)
        for (a, b), (n, v) in zip(obs[0], BATTERY):
            if isinstance(a, str) or isinstance(b, str):
                raise Viol("verdict_total", f"{where}:validate-raises", f"after {where}: validate/validateWithProfile({n!r}, {v!r}) -> {a!r}/{b!r}; profiles {reg.profiles}")
            if a != b:
                raise Viol("validate_agrees", f"{where}:validate-vs-withProfile", f"after {where}: validate({n!r}, {v!r})={a} but validateWithProfile -> valid={b}")
        key = tuple(n + self.variant.get(n, "") for n in reg.profiles)
        nb = len(self.builtins)
        if list(reg.profiles[:nb]) == self.builtins and len(key) > nb and all(n in CUSTOM for n in reg.profiles[nb:]) and len(set(reg.profiles)) == len(key):
            # contents, not history: a registry built directly with these contents gives the same answers
            if key not in self.refcache:
                ref = self.P.Profiles(log=self.cu.log)
                for n in reg.profiles[nb:]:
                    props, macros = CUSTOM[n]
                    ref.addProfile(n, dict(props), dict(macros) if macros and not self.variant.get(n) else None)
                self.refcache[key] = self.observe(ref)
            self.stats["oracle"] += 1
            self.stats["probe:compared_with_direct_build"] += 1
            want = self.refcache[key]
            if want != obs:
                diff = [(BATTERY[i], want[0][i], obs[0][i]) for i in range(len(BATTERY)) if want[0][i] != obs[0][i]][:4]
                what = "verdicts" if diff else "knownNames" if want[1] != obs[1] else "propertiesByProfile"
                raise Viol("equals_direct_build", f"{where}:{what}", f"after {where}: registry contents {key[nb:]} differ in {what} from a new registry given the same profiles directly: {diff or (set(want[1]) ^ set(obs[1]))}")
        if key in self.seen:
            self.stats["probe:recurrence_hit"] += 1
            old = self.seen[key]
            if old != obs:
                diff = [(BATTERY[i], old[0][i], obs[0][i]) for i in range(len(BATTERY)) if old[0][i] != obs[0][i]][:4]
                what = "verdicts" if diff else "knownNames" if old[1] != obs[1] else "propertiesByProfile"
                raise Viol("recurrence", f"{where}:{what}", f"after {where}: registry contents {key[9:] if key[:9] == tuple(self.builtins) else key} were seen before with other {what}: {diff or (old[1] != obs[1] and (set(old[1]) ^ set(obs[1])))}")
        else:
            self.seen[key] = obs
        if list(reg.profiles) == self.builtins:
            self.stats["probe:builtins_only_state"] += 1
            if obs != self.fresh:
                diff = [(BATTERY[i], self.fresh[0][i], obs[0][i]) for i in range(len(BATTERY)) if self.fresh[0][i] != obs[0][i]][:4]
                raise Viol("equals_fresh_registry", f"{where}:{'verdicts' if diff else 'names'}", f"after {where}: only the built-in profiles are registered but the registry differs from a new Profiles(): {diff}")
        if any(p in reg.profiles for p in ("P3", "P4", "P5", "P6")):
            self.stats["probe:macro_override_active"] += 1
        return obs

    def step(self, op):
        reg, k = self.reg, op["op"]
        out = "?"
        if k == "add":
            props, macros = CUSTOM[op["name"]]
            if op.get("nomacros"):
                macros = None
            if op.get("shared"):
                # the caller keeps one dictionary and passes it every time
                props = self.shared.setdefault(op["name"], dict(props))
                kk, v = lib.call(reg.addProfile, op["name"], props, dict(macros) if macros else None)
            else:
                kk, v = lib.call(reg.addProfile, op["name"], dict(props), dict(macros) if macros else None)
            out = "ok" if kk == "ok" else "exc:" + lib.ename(v)
            if kk == "ok":
                self.variant[op["name"]] = "#nm" if op.get("nomacros") and CUSTOM[op["name"]][1] else ""
                self.stats["accepted"] += 1
                if self.removed_any:
                    self.stats["probe:interleaved_removal"] += 1
        elif k == "add_many":
            triples = [(n, dict(CUSTOM[n][0]), dict(CUSTOM[n][1]) if CUSTOM[n][1] else None) for n in op["names"]]
            kk, v = lib.call(reg.addProfiles, triples)
            out = "ok" if kk == "ok" else "exc:" + lib.ename(v)
            if kk == "ok":
                for n in op["names"]:
                    self.variant[n] = ""
                self.stats["accepted"] += 1
        elif k == "remove":
            before = self.observe(reg)
            present = op["name"] in reg.profiles
            kk, v = lib.call(reg.removeProfile, op["name"])
            if not present:
                self.stats["oracle"] += 1
                self.stats["fault:REMOVE_UNKNOWN"] += 1
                self.stats["probe:rejected_removal"] += 1
                if kk == "ok":
                    raise Viol("unknown_removal_rejected", "remove:unknown-accepted", f"removeProfile({op['name']!r}) on {reg.profiles} did not raise")
                if lib.ename(v) != "NoSuchProfileException":
                    raise Viol("unknown_removal_rejected", f"remove:raises:{lib.ename(v)}", f"removeProfile({op['name']!r}) raised {v!r}")
                if self.observe(reg) != before:
                    raise Viol("unknown_removal_rejected", "remove:changed-something", f"rejected removeProfile({op['name']!r}) changed the registry")
                out = "rejected"
            else:
                if kk != "ok":
                    raise Viol("removal_accepted", f"remove:raises:{lib.ename(v)}", f"removeProfile({op['name']!r}) of a registered profile raised {v!r}")
                self.removed_any = True
                self.stats["accepted"] += 1
                out = "removed"
        elif k == "remove_all_readd":
            kk, v = lib.call(reg.removeProfile, None, True)
            k2, v2 = lib.call(reg.addProfiles, builtin_triples())
            self.stats["probe:removed_all_and_readded"] += 1
            out = "ok" if kk == "ok" and k2 == "ok" else "exc"
            if out == "exc":
                raise Viol("removal_accepted", "remove_all:raises", f"removeProfile(all=True) / re-adding raised {v!r} {v2!r}")
        elif k == "remove_each_readd":
            # the registry is emptied by single removals (seeded order), then the built-ins come back
            # (in reverse order of registration: a profile may use the macros of an earlier one, and removing
            # what others still depend on is the caller's error, not part of this property)
            order = list(reversed(reg.profiles))
            for n in order:
                kk, v = lib.call(reg.removeProfile, n)
                if kk != "ok":
                    raise Viol("removal_accepted", f"remove:raises:{lib.ename(v)}", f"removeProfile({n!r}) of a registered profile raised {v!r}")
            if list(reg.profiles):
                raise Viol("removal_accepted", "remove_each:left-over", f"after removing every profile singly the registry still lists {reg.profiles}")
            if op.get("then"):
                props, macros = CUSTOM[op["then"]]
                lib.call(reg.addProfile, op["then"], dict(props), dict(macros) if macros else None)
                lib.call(reg.removeProfile, op["then"])
            k2, v2 = lib.call(reg.addProfiles, builtin_triples())
            self.variant.clear()
            self.stats["probe:emptied_by_single_removals"] += 1
            out = "ok" if k2 == "ok" else "exc"
            if out == "exc":
                raise Viol("removal_accepted", "remove_each:readd-raises", f"re-adding the built-ins raised {v2!r}")
        elif k == "add_bad":
            # a definition naming an undefined macro (and shadowing a general one): refused, nothing changes
            before = self.observe(reg)
            kk, v = lib.call(reg.addProfile, "PBAD", {"-x-z": "{nope}"}, {"length": "foo"}) if op["single"] else lib.call(reg.addProfiles, [("PBAD", {"-x-z": "{nope}"}, {"length": "foo"}), ("PBAD2", {"-x-y": "a"}, None)])
            self.stats["oracle"] += 1
            self.stats["fault:ADD_REFUSED"] += 1
            self.stats["probe:refused_addition"] += 1
            if kk == "ok":
                raise Viol("refused_addition_changes_nothing", "add_bad:accepted", "a profile naming the undefined macro {nope} was accepted")
            if self.observe(reg) != before or "PBAD" in reg.profiles:
                raise Viol("refused_addition_changes_nothing", "add_bad:changed", f"addProfile with an undefined macro raised {v!r} but changed the registry (profiles {reg.profiles[len(self.builtins):]})")
            out = "rejected"
        elif k == "dependency":
            # B2 uses a macro of B1 (one batch): removing B1 alone either works or is refused without a trace
            lib.call(reg.addProfiles, [("B1", {"-x-g": "{mylen}"}, {"mylen": "big|small"}), ("B2", {"-x-h": "{mylen}|x"}, None)])
            before = self.observe(reg)
            kk, v = lib.call(reg.removeProfile, "B1")
            self.stats["oracle"] += 1
            if kk != "ok" and self.observe(reg) != before:
                raise Viol("refused_removal_changes_nothing", "dependency:changed", f"removeProfile('B1') raised {v!r} (another profile uses its macro) but changed the registry")
            for n in ("B2", "B1"):
                if n in reg.profiles:
                    k2, v2 = lib.call(reg.removeProfile, n)
                    if k2 != "ok":
                        raise Viol("removal_accepted", f"dependency:cleanup:{lib.ename(v2)}", f"removeProfile({n!r}) raised {v2!r}; profiles {reg.profiles[len(self.builtins):]}")
            out = "ok"
        elif k == "stale_default":
            name = op["name"]
            props, macros = CUSTOM[name]
            if name not in reg.profiles:
                lib.call(reg.addProfile, name, dict(props), dict(macros) if macros else None)
                self.variant[name] = ""
            lib.call(setattr, reg, "defaultProfiles", name)
            lib.call(reg.removeProfile, name)
            self.stats["probe:default_profile_removed"] += 1
            obs = self.check("stale_default")  # total verdicts although the default names a removed profile
            lib.call(setattr, reg, "defaultProfiles", None)
            out = "ok"
        elif k == "remove_last":
            if not reg.profiles:
                return "empty"
            name = reg.profiles[-1]
            kk, v = lib.call(reg.removeProfile, name)
            if kk != "ok":
                raise Viol("removal_accepted", f"remove:raises:{lib.ename(v)}", f"removeProfile({name!r}) (registered last) raised {v!r}")
            self.removed_any = True
            out = "removed"
            self.stats["accepted"] += 1
        elif k == "default":
            before = self.observe(reg)
            names = [n for n in op["names"] if n in reg.profiles] or None
            kk, v = lib.call(setattr, reg, "defaultProfiles", names)
            self.stats["oracle"] += 1
            self.stats["probe:default_profiles_restricted"] += 1
            after = self.observe(reg)
            if after != before:
                diff = [(BATTERY[i], before[0][i], after[0][i]) for i in range(len(BATTERY)) if before[0][i] != after[0][i]][:4]
                raise Viol("default_profiles_only_matching", "default:valid-changed", f"defaultProfiles = {names} changed validity: {diff}")
            lib.call(setattr, reg, "defaultProfiles", None)
            out = "ok"
        else:
            raise ValueError(k)
        self.stats[f"op:{k}:{out.split(':')[0]}"] += 1
        self.check(k)
        return out

    def finish(self):
        # remove every custom profile that is left, in reverse order of registration: back to the built-ins
        reg = self.reg
        for n in reversed([p for p in reg.profiles if p in CUSTOM]):
            lib.call(reg.removeProfile, n)
        self.check("finish")

    def state(self):
        return tuple(p for p in self.reg.profiles if p in CUSTOM)


def gen_op(r, w, i):
    cfg = w.cfg
    if i >= cfg["n_ops"]:
        return None
    names = cfg["names"]
    k = r.choice(["add", "add", "add", "remove", "remove", "remove", "add_many", "default", "remove_unknown", "remove_all_readd", "remove_each_readd", "remove_builtin", "add_nomacros", "add_bad", "dependency", "stale_default"])
    if k == "add_bad":
        return {"op": k, "single": r.random() < 0.5}
    if k == "dependency":
        return {"op": k}
    if k == "stale_default":
        return {"op": k, "name": r.choice(names)}
    if k == "remove_each_readd":
        return {"op": k, "then": r.choice([None, None] + [n for n in names if n in SELF_CONTAINED])}
    if k == "remove_builtin":
        # only the profile registered last: nothing registered later can depend on its macros
        return {"op": "remove_last"}
    if k == "add_nomacros":
        ok = [n for n in names if n in NOMACROS_OK]
        return {"op": "add", "name": r.choice(ok), "nomacros": True} if ok else {"op": "add", "name": r.choice(names)}
    present = [p for p in w.reg.profiles if p in CUSTOM]
    absent = [p for p in names if p not in present]
    if k == "add":
        if absent and r.random() < 0.92:
            return {"op": "add", "name": r.choice(absent), "shared": r.random() < 0.4}
        return {"op": "add", "name": r.choice(names), "shared": r.random() < 0.4}
    if k == "remove":
        if present:
            return {"op": "remove", "name": r.choice(present)}
        return {"op": "add", "name": r.choice(names)}
    if k == "add_many":
        if len(absent) >= 2:
            return {"op": "add_many", "names": r.sample(absent, r.randrange(2, len(absent) + 1))}
        return {"op": "remove", "name": r.choice(present)} if present else {"op": "add", "name": r.choice(names)}
    if k == "default":
        pool = list(w.reg.profiles)
        return {"op": "default", "names": r.sample(pool, r.randrange(1, min(4, len(pool)) + 1)) if pool else []}
    if k == "remove_unknown":
        return {"op": "remove", "name": r.choice(["nope", "P9", "css level 2"] + absent)}
    return {"op": "remove_all_readd"}
