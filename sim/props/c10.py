"""C10 - declaration blocks obey the ordered-multimap-with-cascade model.

World: one CSSStyleDeclaration (stand-alone or owned by a style / font-face / page rule) or one
CSSVariablesDeclaration, driven by a seeded operation history, in lock step with a reference model
(a Python list of (literal name, normalised name, value, priority)).  Faults: syntactically invalid
value / priority / name arguments (rejected operations) in either error mode.
"""
import collections
import re

from sim.kit import lib
from sim.kit.runner import Viol
from sim.world import simlog

ID = "C10"
FORK = True
RUNS = {"quick": 14_000, "thorough": 250_000}
RULE = "run = one declaration block (style or variables) + seeded history of set / add-duplicate / remove / item assignment / deletion / attribute access / text replacement, in lock step with a list model; runs >= N_random sweep every known property name through DOM-name access"
REAL = ["cssutils/css/cssstyledeclaration.py", "cssutils/css/property.py", "cssutils/css/cssproperties.py", "cssutils/css/cssvariablesdeclaration.py", "cssutils/serialize.py", "cssutils/helper.py (normalize)"]
STUBS = ["SimLog log sink"]
ASSUMPTIONS = [
    "whether a (name, value, priority) triple is acceptable is decided by constructing a stand-alone Property (pure function of the triple)",
    "values come from a pool whose serialisation is a fixpoint (value spelling is C03/C18's subject)",
    "order among distinct names is not fixed by the statement: length/item/keys/iteration must agree with each other and enumerate the model's name set",
]
PROBES = ["duplicates_with_mixed_priorities", "update_after_priority_lost", "remove_by_other_spelling", "rejected_op", "text_replaced", "domname_access", "variables_case_variant"]

NAMES = ["color", "COLOR", r"c\olor", "Color", "left", "LEFT", r"lef\t", "top", "x-a", "X-A", "background", "margin-top", "-moz-x", "MARGIN-TOP"]
VALUES = ["red", "blue", "1px", "0", "inherit", "url(x.png)", "1px 2px", "\"s\"", "a, b", "rgb(1, 2, 3)", "#fff", "-1.5em", "50%", "f(1)", "calc(1px + 2px)"]
BAD_VALUES = ["1;2", "(", "red }", "a: b", "\"unterminated", "1px !", ""]
PRIOS = ["", "", "", "important", "!important", "IMPORTANT", "! Important"]
BAD_PRIOS = ["importan", "!", "1"]
VNAMES = ["x", "X", "y", "c1", "C1", r"\x", "a-b"]


def normalize(name):
    """reference normalisation: simple escapes removed, lower-cased (CSS: backslash before a non-hex char)"""
    return re.sub(r"\\([^0-9a-fA-F\n\r\f])", r"\1", name).lower() if name else name


def css_to_dom(name):
    parts = name.split("-")
    return parts[0] + "".join(p[:1].upper() + p[1:] for p in parts[1:])


def config(rs, run, tier):
    nr = RUNS[tier] - N_SWEEP
    if run >= nr:
        return {"kind": "domnames", "chunk": run - nr, "n_ops": 1, "raise": (run - nr) % 2 == 0}
    r = rs("config")
    kind = r.choice(["style", "style", "style", "variables"])
    return {
        "kind": kind,
        "owner": r.choice(["none", "style", "fontface", "page"]) if kind == "style" else r.choice(["none", "rule"]),
        "raise": r.random() < 0.5,
        "n_ops": r.choice([1, 2, 3, 4, 6, 8, 12, 25, 60]),
        "bad_rate": r.choice([0.0, 0.15, 0.4]),
        "names": r.sample(NAMES, r.randrange(2, 8)),
        "init": r.random() < 0.5,
    }


N_SWEEP = 8  # the known property names are swept in 8 chunks (finite, exhaustive)


class World:
    def __init__(self, cfg):
        import cssutils

        self.cu = cu = cssutils
        self.cfg = cfg
        self.stats = collections.Counter()
        self.log = simlog.install()
        cu.log.raiseExceptions = cfg["raise"]
        self.model = []  # [literal, nname, value, prio]
        self.kind = cfg["kind"]
        if self.kind == "style":
            o = cfg["owner"]
            if o == "none":
                self.block = cu.css.CSSStyleDeclaration()
            elif o == "style":
                self.block = cu.css.CSSStyleRule(selectorText="a").style
            elif o == "fontface":
                self.block = cu.css.CSSFontFaceRule().style
            else:
                self.block = cu.css.CSSPageRule().style
        elif self.kind == "variables":
            if cfg["owner"] == "none":
                self.block = cu.css.CSSVariablesDeclaration()
            else:
                self.block = cu.css.CSSVariablesRule().variables
            self.vmodel = collections.OrderedDict()

    # ---------------------------------------------------------------- model
    def effective(self, nname):
        found = None
        for e in reversed(self.model):
            if e[1] == nname:
                if e[3] == "important":  # (only this priority: "!ie", which log mode keeps, is not it)
                    return e
                if found is None:
                    found = e
        return found

    def names(self):
        out = []
        for e in self.model:
            if e[1] not in out:
                out.append(e[1])
        return out

    def acceptable(self, name, value, prio):
        """stand-alone Property: (ok, canonical value, canonical priority)"""
        cu = self.cu
        m = self.log.mark()
        k, p = lib.call(cu.css.Property, name, value, prio)
        if k == "dom":
            return False, None, None
        if k == "exc":
            self.stats["unexpected:" + lib.ename(p)] += 1
            return None, None, None
        if not p.wellformed:
            return False, None, None
        return True, p.value, p.priority

    def model_from_text(self, text):
        cu = self.cu
        k, d = lib.call(cu.css.CSSStyleDeclaration, text)
        if k != "ok":
            return None
        return [[p.literalname, p.name, p.value, p.priority] for p in d.getProperties(all=True)]

    # ---------------------------------------------------------------- checks
    def compare(self, where):
        b = self.block
        self.stats["oracle"] += 1
        got = [[p.literalname, p.name, p.value, p.priority] for p in b.getProperties(all=True)]
        if got != self.model:
            raise Viol("model_list", f"{where}:entries", f"after {where}: block entries {got!r} != model {self.model!r}")
        names = self.names()
        keys = list(b.keys())
        items = [b.item(i) for i in range(b.length)]
        it = [p.name for p in b]
        if not (sorted(keys) == sorted(names) and b.length == len(names) and sorted(items) == sorted(names) and sorted(it) == sorted(names)):
            raise Viol("names_enumeration", f"{where}:names", f"after {where}: model names {names} length={b.length} keys={keys} items={items} iter={it}")
        if not (keys == items == it):
            raise Viol("names_enumeration", f"{where}:order-disagrees", f"keys={keys} items={items} iter={it}")
        if b.item(b.length) != "":
            raise Viol("names_enumeration", f"{where}:item-out-of-range", f"item(length)={b.item(b.length)!r}")
        # indexing is list-like on both sides of the range (documented: -1 is the last name, '' outside)
        n_ = len(items)
        for i in range(-n_ - 2, n_ + 3):
            want = items[i] if -n_ <= i < n_ else ""
            if b.item(i) != want:
                raise Viol("names_enumeration", f"{where}:item-index", f"item({i})={b.item(i)!r}, the enumeration {items} has {want!r} there")
        for n in names:
            e = self.effective(n)
            if n not in b:
                raise Viol("membership", f"{where}:in", f"{n!r} in model but `in` says no")
            p = b.getProperty(n)
            if p is None or [p.literalname, p.name, p.value, p.priority] != e:
                raise Viol("effective_property", f"{where}:getProperty", f"effective {n!r}: block {None if p is None else [p.literalname, p.name, p.value, p.priority]!r}, model {e!r}; entries {self.model!r}")
            if b.getPropertyValue(n) != e[2] or b.getPropertyPriority(n) != e[3] or b[n] != e[2]:
                raise Viol("effective_property", f"{where}:value", f"effective value/priority of {n!r} differ from model {e!r}")
        prios = {}
        for e in self.model:
            prios.setdefault(e[1], set()).add(bool(e[3]))
        if any(len(v) == 2 for v in prios.values()):
            self.stats["probe:duplicates_with_mixed_priorities"] += 1

    def reparse_check(self):
        """the block's own serialisation (all entries) reparses to the model list"""
        b = self.block
        self.stats["oracle"] += 1
        k, text = lib.call(lambda: b.cssText)
        if k != "ok":
            raise Viol("serialise", "cssText:raises", f"cssText raised {text!r}; model {self.model!r}")
        got = self.model_from_text(text)
        if got != self.model:
            raise Viol("reparse_equals_model", "cssText:reparse", f"{text!r} reparses to {got!r}, model {self.model!r}")

    # ---------------------------------------------------------------- operations
    def step(self, op):
        if self.kind == "domnames":
            return self.domnames(op)
        if self.kind == "variables":
            return self.vstep(op)
        b, k = self.block, op["op"]
        out = None
        if k in ("set", "setitem", "setattr"):
            name, value, prio, replace = op["name"], op["value"], op.get("prio", ""), op.get("replace", True)
            if value in BAD_VALUES or prio in BAD_PRIOS:
                self.stats["fault:BAD_ARGUMENT"] += 1
            nname = normalize(name)
            if k == "set":
                kk, v = lib.call(b.setProperty, name, value, prio, True, replace)
            elif k == "setitem":
                replace = True
                kk, v = lib.call(b.__setitem__, name, (value, prio) if prio else value)
            else:
                dom = css_to_dom(nname)
                name, prio, replace = nname, "", True
                self.stats["probe:domname_access"] += 1
                kk, v = lib.call(setattr, b, dom, value)
                if kk == "exc" and isinstance(v, AttributeError):
                    # not a known property: attribute-style access is refused, nothing changes
                    self.stats["op:setattr:unknown-name"] += 1
                    self.compare("setattr-unknown")
                    return "unknown"
            if not value:
                # empty value = removal
                self._model_remove(nname)
                out = "removed"
            else:
                ok, cv, cp = self.acceptable(name, value, prio)
                if ok is None:
                    return "skip"
                if kk == "exc":
                    self.stats["unexpected:" + lib.ename(v)] += 1
                    return "exc"
                if ok != (kk == "ok") and self.cfg["raise"]:
                    raise Viol("acceptance", f"{k}:acceptance", f"{k}({name!r}, {value!r}, {prio!r}) -> {'accepted' if kk == 'ok' else lib.ename(v)} but a stand-alone Property is {'well-formed' if ok else 'rejected'}")
                if ok:
                    eff = self.effective(nname) if replace else None
                    if eff is not None:
                        if eff[3] and not cp:
                            self.stats["probe:update_after_priority_lost"] += 1
                        eff[2], eff[3] = cv, cp
                    else:
                        self.model.append([name.lower(), nname, cv, cp])  # the literal name is kept lower-cased
                    self.stats["accepted"] += 1
                    out = "accepted"
                else:
                    self.stats["probe:rejected_op"] += 1
                    out = "rejected"
        elif k == "set_literal":
            # update addressed by the literal (not normalised) name: the effective entry of that literal name
            name, value, prio = op["name"], op["value"], op.get("prio", "")
            ok, cv, cp = self.acceptable(name, value, prio)
            if ok is None or not value:
                return "skip"
            kk, v = lib.call(b.setProperty, name, value, prio, False, True)
            if kk == "exc":
                self.stats["unexpected:" + lib.ename(v)] += 1
                return "exc"
            if ok:
                lit = name.lower()
                eff = None
                for e in reversed(self.model):
                    if e[0] == lit:
                        if e[3] == "important":
                            eff = e
                            break
                        if eff is None:
                            eff = e
                if eff is not None:
                    eff[2], eff[3] = cv, cp
                else:
                    self.model.append([lit, normalize(name), cv, cp])
                self.stats["accepted"] += 1
                out = "accepted"
            else:
                self.stats["probe:rejected_op"] += 1
                out = "rejected"
        elif k in ("remove", "delitem", "delattr"):
            name = op["name"]
            nname = normalize(name)
            eff = self.effective(nname)
            want = eff[2] if eff else ""
            if eff and eff[0] != name:
                self.stats["probe:remove_by_other_spelling"] += 1
            if k == "remove":
                kk, v = lib.call(b.removeProperty, name)
                if kk == "ok" and v != want:
                    raise Viol("remove_returns_effective", "remove:return", f"removeProperty({name!r}) returned {v!r}, model effective value {want!r}; entries {self.model!r}")
            elif k == "delitem":
                kk, v = lib.call(b.__delitem__, name)
            else:
                self.stats["probe:domname_access"] += 1
                kk, v = lib.call(delattr, b, css_to_dom(nname))
                if kk == "exc" and isinstance(v, AttributeError):
                    self.compare("delattr-unknown")
                    return "unknown"
            if kk != "ok":
                raise Viol("total_operation", f"{k}:raises:{lib.ename(v)}", f"{k}({name!r}) raised {v!r}")
            self._model_remove(nname)
            self.stats["accepted"] += 1
            out = "removed"
        elif k == "text":
            want = self.model_from_text(op["text"]) if True else None
            kk, v = lib.call(setattr, b, "cssText", op["text"])
            if kk == "ok" and want is not None:
                self.model = want
                self.stats["accepted"] += 1
                self.stats["probe:text_replaced"] += 1
                out = "accepted"
            elif kk == "dom":
                self.stats["probe:rejected_op"] += 1
                out = "rejected"
            else:
                if kk == "exc":
                    self.stats["unexpected:" + lib.ename(v)] += 1
                return "exc"
        elif k == "getattr":
            nname = normalize(op["name"])
            kk, v = lib.call(getattr, b, css_to_dom(nname))
            if kk == "ok":
                eff = self.effective(nname)
                self.stats["oracle"] += 1
                self.stats["probe:domname_access"] += 1
                if v != (eff[2] if eff else ""):
                    raise Viol("domname_access", "getattr:value", f"style.{css_to_dom(nname)} = {v!r}, model {eff!r}")
            out = "read"
        elif k == "reparse":
            self.reparse_check()
            out = "reparse"
        else:
            raise ValueError(k)
        self.stats[f"op:{k}:{out}"] += 1
        self.compare(k)
        return out

    def _model_remove(self, nname):
        self.model = [e for e in self.model if e[1] != nname]

    # ---------------------------------------------------------------- variables block
    def vstep(self, op):
        b, k = self.block, op["op"]
        cu = self.cu
        if k in ("vset", "vsetitem"):
            name, value = op["name"], op["value"]
            kk, v = lib.call(b.setVariable, name, value) if k == "vset" else lib.call(b.__setitem__, name, value)
            k2, pv = lib.call(cu.css.PropertyValue, value)
            ok = k2 == "ok" and pv.wellformed and bool(value)
            if kk == "exc":
                self.stats["unexpected:" + lib.ename(v)] += 1
                return "exc"
            if kk == "ok" and ok:
                self.vmodel[normalize(name)] = pv.cssText
                self.stats["accepted"] += 1
                out = "accepted"
            elif kk == "ok" and not ok:
                out = "logged"
            else:
                self.stats["probe:rejected_op"] += 1
                out = "rejected"
        elif k in ("vremove", "vdelitem"):
            name = op["name"]
            n = normalize(name)
            want = self.vmodel.get(n, "")
            kk, v = lib.call(b.removeVariable, name) if k == "vremove" else lib.call(b.__delitem__, name)
            if kk != "ok":
                raise Viol("total_operation", f"{k}:raises:{lib.ename(v)}", f"{k}({name!r}) raised {v!r}")
            if k == "vremove" and v != want:
                raise Viol("remove_returns_effective", "vremove:return", f"removeVariable({name!r}) returned {v!r}, model {want!r}; model {dict(self.vmodel)!r}")
            self.vmodel.pop(n, None)
            self.stats["accepted"] += 1
            out = "removed"
        elif k == "vtext":
            k2, fresh = lib.call(cu.css.CSSVariablesDeclaration, op["text"])
            kk, v = lib.call(setattr, b, "cssText", op["text"])
            if kk == "ok" and k2 == "ok":
                # log mode: a text that is not well-formed is reported and changes nothing
                if not op["text"].strip() or getattr(fresh, "wellformed", False):
                    self.vmodel = collections.OrderedDict((n, fresh.getVariableValue(n)) for n in fresh.keys())
                    self.stats["accepted"] += 1
                    out = "accepted"
                else:
                    out = "logged"
            elif kk == "dom":
                out = "rejected"
                self.stats["probe:rejected_op"] += 1
            else:
                return "exc"
        else:
            raise ValueError(k)
        if any(n != n.lower() or "\\" in n for n in [op.get("name", "")]):
            self.stats["probe:variables_case_variant"] += 1
        self.stats[f"op:{k}:{out}"] += 1
        self.vcompare(k)
        return out

    def vcompare(self, where):
        b, cu = self.block, self.cu
        self.stats["oracle"] += 1
        keys = list(b.keys())
        if sorted(keys) != sorted(self.vmodel) or b.length != len(self.vmodel) or sorted(b) != sorted(self.vmodel) or sorted(b.item(i) for i in range(b.length)) != sorted(self.vmodel):
            raise Viol("variables_map", f"{where}:keys", f"after {where}: keys={keys} length={b.length} model={dict(self.vmodel)!r}")
        for n, val in self.vmodel.items():
            if b.getVariableValue(n) != val or b[n] != val or n not in b:
                raise Viol("variables_map", f"{where}:value", f"variable {n!r}: block {b.getVariableValue(n)!r}, model {val!r}")
        # the serialisation lists exactly the variables the API reports
        k, text = lib.call(lambda: b.cssText)
        if k != "ok":
            raise Viol("serialise", "variables:cssText:raises", f"{text!r}")
        k2, fresh = lib.call(cu.css.CSSVariablesDeclaration, text)
        if k2 != "ok":
            raise Viol("variables_serialisation", f"{where}:reparse-raises", f"serialisation {text!r} does not reparse: {fresh!r}")
        got = {n: fresh.getVariableValue(n) for n in fresh.keys()}
        if got != dict(self.vmodel):
            raise Viol("variables_serialisation", f"{where}:lists-other-variables", f"serialisation {text!r} lists {got!r}, API reports {dict(self.vmodel)!r}")

    # ---------------------------------------------------------------- DOM-name sweep
    def domnames(self, op):
        cu = self.cu
        import cssutils.profiles as prof

        names = sorted({n for g in prof.properties for n in prof.properties[g]})
        mine = names[self.cfg["chunk"] :: N_SWEEP]
        n_ok = 0
        for cssname in mine:
            dom = css_to_dom(cssname)
            s = cu.css.CSSStyleDeclaration()
            kk, v = lib.call(setattr, s, dom, "inherit")
            if kk != "ok":
                raise Viol("domname_access", "sweep:setattr", f"style.{dom} = 'inherit' raised {v!r} for known property {cssname!r}")
            if s.getPropertyValue(cssname) != "inherit" or s.item(0) != cssname or s.length != 1:
                raise Viol("domname_access", "sweep:set-not-equivalent", f"style.{dom}='inherit' -> getPropertyValue({cssname!r})={s.getPropertyValue(cssname)!r} item(0)={s.item(0)!r}")
            s2 = cu.css.CSSStyleDeclaration()
            s2.setProperty(cssname, "inherit")
            if getattr(s2, dom) != "inherit" or s2.cssText != s.cssText:
                raise Viol("domname_access", "sweep:get-not-equivalent", f"setProperty({cssname!r}) then style.{dom} = {getattr(s2, dom)!r}")
            kk, v = lib.call(delattr, s, dom)
            if kk != "ok" or s.length != 0 or getattr(s, dom) != "":
                raise Viol("domname_access", "sweep:del-not-equivalent", f"del style.{dom}: {kk} {v!r} length={s.length}")
            n_ok += 1
        self.stats["oracle"] += 3 * n_ok
        self.stats["accepted"] += n_ok
        self.stats["probe:domname_access"] += n_ok
        self.stats["domnames_swept"] += n_ok
        return f"swept{n_ok}"

    def finish(self):
        if self.kind == "style":
            self.reparse_check()

    def state(self):
        if self.kind == "style":
            return ("s", tuple((e[1], bool(e[3])) for e in self.model))
        if self.kind == "variables":
            return ("v", tuple(self.vmodel))
        return ("d", self.cfg["chunk"])


def gen_op(r, w, i):
    cfg = w.cfg
    if i >= cfg["n_ops"]:
        return None
    if cfg["kind"] == "domnames":
        return {"op": "sweep"}
    bad = r.random() < cfg["bad_rate"]
    if cfg["kind"] == "variables":
        k = r.choice(["vset", "vset", "vsetitem", "vremove", "vdelitem", "vtext"])
        if k in ("vset", "vsetitem"):
            return {"op": k, "name": r.choice(VNAMES), "value": r.choice(BAD_VALUES if bad else VALUES)}
        if k in ("vremove", "vdelitem"):
            return {"op": k, "name": r.choice(VNAMES)}
        # malformed variable texts only in raise mode (rejected as a whole); what log mode salvages from a
        # malformed text is input handling, not map discipline
        badtext = bad and cfg["raise"]
        # (comments between the variables: items of the block's sequence that are no variables)
        return {"op": k, "text": "; ".join(f"{r.choice(['', '', '/*c*/ ', '/*a*/ /*b*/'])}{r.choice(VNAMES)}: {r.choice(BAD_VALUES[:-1] if (badtext and r.random() < 0.4) else VALUES)}{r.choice(['', '', ' /*d*/'])}" for _ in range(r.randrange(0, 4)))}
    if i == 0 and cfg["init"]:
        k = "text"
    else:
        k = r.choice(["set", "set", "set", "setitem", "setattr", "remove", "delitem", "delattr", "text", "getattr", "reparse", "set_literal"])
    name = r.choice(cfg["names"])
    if k == "set_literal":
        # (documented: the name is given in lower case when it is not normalised)
        return {"op": k, "name": name.lower(), "value": r.choice(VALUES), "prio": r.choice(PRIOS)}
    if k in ("set", "setitem"):
        return {"op": k, "name": name, "value": r.choice(BAD_VALUES if bad else VALUES), "prio": r.choice(BAD_PRIOS if (bad and r.random() < 0.3) else PRIOS), "replace": r.random() < 0.7}
    if k == "setattr":
        return {"op": k, "name": name, "value": r.choice(BAD_VALUES if bad else VALUES)}
    if k in ("remove", "delitem", "delattr", "getattr"):
        return {"op": k, "name": name}
    if k == "text":
        decls = []
        for _ in range(r.randrange(0, 6)):
            decls.append(f"{r.choice(cfg['names'])}: {r.choice(BAD_VALUES if (bad and r.random() < 0.4) else VALUES)}{r.choice(['', '', ' !important', ' ! IMPORTANT'] + ([] if cfg['raise'] else [' !ie', ' !foo']))}")
        return {"op": k, "text": "; ".join(decls)}
    return {"op": k}
