"""C08 - sheet/import encoding precedence; serialised bytes decodable and lossless.

World: SimNet chain root -> a -> b -> c (depth <= 3).  Every document carries a marker whose wire bytes
(C3 A4) decode to different characters under each candidate encoding, so the text found in the DOM
reveals the encoding actually used, independently of the .encoding attribute.  Each document
independently has BOM / @charset (truthful or lying) / neither, an HTTP charset (absent / truthful /
lying), is delivered as bytes or text, and its fetch may fail (None / (None, None) / OSError).
Oracle: reference ladder  override > HTTP > BOM/@charset > referring sheet > utf-8  evaluated on the
world's ground truth; plus, after every edit step, encoding attribute == @charset rule, serialisation
decodable, restart (decode + reparse) gives the same DOM.
"""
import codecs
import collections
import os
import re
import shutil
import tempfile

from sim.kit import lib
from sim.kit.runner import Viol
from sim.obs import project as P
from sim.world import simlog, simnet

ID = "C08"
FORK = True
RUNS = {"quick": 10_000, "thorough": 200_000}
RULE = "run = generated import chain (depth <= 3) with per-document wire encoding / BOM / @charset (truthful, lying) / HTTP charset / bytes-or-text delivery / fetch fault, parsed through parseString / parseUrl / parseFile with or without override, followed by seeded edits (add @import, set encoding, insert content with characters outside the target encoding) and restarts"
REAL = ["cssutils/util.py (_readUrl)", "cssutils/parse.py", "cssutils/css/cssstylesheet.py (_resolveImport, _setCssTextWithEncodingOverride, encoding)", "cssutils/css/cssimportrule.py (_setHref)", "cssutils/css/csscharsetrule.py", "cssutils/serialize.py (escapecss)", "cssutils/codec.py", "stdlib codecs"]
STUBS = ["SimNet fetcher (documents, HTTP charsets, faults)", "scratch file for parseFile", "SimLog"]
ASSUMPTIONS = [
    "candidate encodings are mutually distinguishable on the marker bytes C3 A4: utf-8, iso-8859-1, iso-8859-15, koi8-r (+ utf-16 with BOM as wire encoding, ascii as target encoding)",
    "a document whose bytes do not decode under the encoding the ladder selects is expected to be an unloaded import (rule kept, empty sheet)",
    "imported sheets are compared by marker and reported encoding; the restart projection compares the edited sheet's own rules",
]
PROBES = ["rung_override", "rung_http", "rung_content", "rung_parent", "rung_default", "depth2", "depth3", "override_inherited_two_levels", "import_added_after_parse", "escape_in_identifier", "escape_in_string", "escape_in_url", "escape_in_comment", "escape_in_atkeyword", "undecodable_import_unloaded", "fetch_fault"]

SINGLE = ["utf-8", "iso-8859-1", "iso-8859-15", "koi8-r"]
MARK = "ä"  # utf-8 bytes C3 A4


def norm(enc):
    try:
        return codecs.lookup(enc).name
    except (LookupError, TypeError):
        return str(enc).lower()


def config(rs, run, tier):
    r = rs("config")
    depth = r.choice([1, 1, 2, 3])
    names = ["root.css", "a.css", "b.css", "c.css"][: depth + 1]
    docs = {}
    for i, n in enumerate(names):
        wire = r.choice(SINGLE + ["utf-8", "utf-16"])
        decl = r.choice([None, None, "TRUE", "LIE"])
        if decl == "TRUE":
            decl = wire
        elif decl == "LIE":
            decl = r.choice([e for e in SINGLE if e != wire])
        http = r.choice([None, None, None, "TRUE", "LIE"]) if i > 0 or True else None
        if http == "TRUE":
            http = wire
        elif http == "LIE":
            http = r.choice([e for e in SINGLE if e != wire])
        docs[n] = {
            "wire": wire,
            "be": wire == "utf-16" and r.random() < 0.5,  # big-endian byte order mark (Python itself writes little-endian)
            "decl": decl,
            "http": http,
            "as_text": r.random() < 0.2,
            "fault": r.choice([None] * 8 + ["NOT_FOUND", "EMPTY", "OSERROR"]) if i > 0 else None,
            "child": names[i + 1] if i + 1 < len(names) else None,
        }
    entry = r.choice(["string_bytes", "string_bytes", "string_text", "url", "url", "file"])
    return {
        "docs": docs,
        "entry": entry,
        "override": r.choice([None, None, None] + SINGLE),
        "n_ops": r.choice([1, 1, 2, 3, 5, 8]),
        "raise": False,
    }


def content(name, d):
    parts = []
    if d["decl"]:
        parts.append(f'@charset "{d["decl"]}";')
    if d["child"]:
        parts.append(f'@import "{d["child"]}";')
    parts.append(f'.{name[0]} {{ content: "M{MARK}" }}')
    return "\n".join(parts)


def wire_bytes(name, d):
    """what is on the wire: ASCII CSS + the marker bytes C3 A4 (the 'wire encoding' of a single-byte document is
    the producer's claim; the bytes are chosen to be valid under every candidate), or real UTF-16 with BOM"""
    if d["wire"] == "utf-16":
        if d.get("be"):
            return b"\xfe\xff" + content(name, d).encode("utf-16-be")
        return content(name, d).encode("utf-16")
    return content(name, d).replace(MARK, "\x00").encode("ascii").replace(b"\x00", b"\xc3\xa4")


def explicit_in_bytes(b):
    """BOM / @charset in the content (CSS 2.1 4.4), None if neither"""
    if b.startswith(b"\xff\xfe") or b.startswith(b"\xfe\xff"):
        return "utf-16"
    if b.startswith(b"\xef\xbb\xbf"):
        return "utf-8-sig"
    m = re.match(rb'@charset "([^"]*)"', b)
    return m.group(1).decode("ascii") if m else None


def ladder(d, b_or_text, override, parent_enc, via_http=True):
    """(used encoding, rung)"""
    if override:
        return override, "override"
    if via_http and d["http"]:
        return d["http"], "http"
    if isinstance(b_or_text, str):
        m = re.match(r'@charset "([^"]*)"', b_or_text)
        exp = m.group(1) if m else None
    else:
        exp = explicit_in_bytes(b_or_text)
    if exp:
        return exp, "content"
    if parent_enc:
        return parent_enc, "parent"
    return "utf-8", "default"


def marker_of(sheet):
    for r in sheet.cssRules:
        if r.typeString == "STYLE_RULE":
            v = r.style.getPropertyValue("content")
            if v.startswith('"M'):
                return v[2:-1]
    return None


def expected_marker(b, used):
    try:
        t = b.decode(used)
    except (UnicodeDecodeError, LookupError):
        return None
    m = re.search(r'content: "M([^"]*)"', t)
    return m.group(1) if m else None


class World:
    def __init__(self, cfg):
        import cssutils

        self.cu = cu = cssutils
        self.cfg = cfg
        self.stats = collections.Counter()
        self.log = simlog.install()
        self.soft = []
        cu.log.raiseExceptions = False
        self.tmp = None
        self.docs = cfg["docs"]
        netdocs = {}
        for n, d in self.docs.items():
            nd = {"http": d["http"], "fault": d["fault"]}
            if d["as_text"]:
                nd.update(text=content(n, d), enc=None)
            else:
                nd.update(raw_hex=wire_bytes(n, d).hex(), enc="x")
            netdocs["http://h/" + n] = nd
        self.net = simnet.SimNet(netdocs, self.stats)
        self.sheet = None
        self.parse()

    def close(self):
        if self.tmp:
            shutil.rmtree(self.tmp, ignore_errors=True)

    # ------------------------------------------------------------------ the parse under test
    def parse(self):
        cu, cfg = self.cu, self.cfg
        root = self.docs["root.css"]
        entry, override = cfg["entry"], cfg["override"]
        parser = cu.CSSParser(fetcher=self.net.fetch)
        b = wire_bytes("root.css", root)
        if entry == "string_bytes":
            k, s = lib.call(parser.parseString, b, encoding=override, href="http://h/root.css")
            used, rung = ladder(root, b, override, None, via_http=False)
        elif entry == "string_text":
            t = content("root.css", root)
            k, s = lib.call(parser.parseString, t, encoding=override, href="http://h/root.css")
            used, rung = ladder(root, t, override, None, via_http=False)
        elif entry == "file":
            self.tmp = tempfile.mkdtemp(prefix="simfs-c08-")
            path = os.path.join(self.tmp, "root.css")
            with open(path, "wb") as f:
                f.write(b)
            k, s = lib.call(parser.parseFile, path, encoding=override, href="http://h/root.css")
            used, rung = ladder(root, b, override, None, via_http=False)
        else:
            k, s = lib.call(parser.parseUrl, "http://h/root.css", encoding=override)
            data = content("root.css", root) if root["as_text"] else b
            used, rung = ladder(root, data, override, None, via_http=True)
        self.stats["probe:rung_" + rung] += 1
        is_text = entry == "string_text" or (entry == "url" and root["as_text"])
        exp = MARK if is_text else expected_marker(b, used)
        if k != "ok":
            # undecodable root: the caller gets the UnicodeDecodeError (legitimate); nothing to compare
            self.stats[f"op:parse:{lib.ename(s)}"] += 1
            if exp is not None and not isinstance(s, (UnicodeDecodeError, LookupError)):
                raise Viol("parse_returns", f"parse:{entry}:raises:{lib.ename(s)}", f"parse via {entry} raised {s!r}")
            return
        if s is None:
            self.stats["op:parse:none"] += 1
            if exp is not None and entry == "url" and not root["fault"]:
                raise Viol("ladder", f"root:{rung}:not-loaded", f"parseUrl returned None although the root decodes under {used} ({rung})")
            return
        self.stats["op:parse:ok"] += 1
        self.stats["accepted"] += 1
        self.sheet = s
        if exp is None:
            # the root's bytes are garbage under the encoding the caller forced: nothing to compare below it
            self.stats["op:parse:garbage-root"] += 1
            return
        self.judge(s, "root.css", used, rung, exp, is_text, 0, override)

    def judge(self, sheet, name, used, rung, exp, is_text, depth, override):
        """compare one loaded sheet with the ladder, then descend"""
        d = self.docs[name]
        self.stats["oracle"] += 1
        got = marker_of(sheet)
        if got != exp:
            decoded_as = [e for e in SINGLE + ["utf-16"] if not is_text and expected_marker(wire_bytes(name, d), e) == got]
            raise Viol("ladder_marker", f"depth{depth}:{rung}:decoded-with-other-encoding", f"{name} (wire {d['wire']}, decl {d['decl']}, http {d['http']}, text={is_text}, override={override}): ladder says {used} ({rung}) -> marker {exp!r}, DOM has {got!r} (= decoded as {decoded_as})")
        has_rule = any(r.typeString == "CHARSET_RULE" for r in sheet.cssRules)
        if depth == 0 and not has_rule and not override and not d["decl"] and self.cfg["entry"] != "url":
            pass  # a root decoded by its BOM alone has no @charset rule: it reports utf-8 by definition
        elif norm(sheet.encoding) != norm(used) and not (is_text and rung in ("default",)):
            raise Viol("ladder_reported", f"depth{depth}:{rung}:reported-encoding", f"{name}: ladder says {used} ({rung}) but sheet.encoding = {sheet.encoding!r}")
        if depth == 2:
            self.stats["probe:depth2"] += 1
        if depth == 3:
            self.stats["probe:depth3"] += 1
        if override and depth >= 2:
            self.stats["probe:override_inherited_two_levels"] += 1
        child = d["child"]
        if not child:
            return
        rules = [r for r in sheet.cssRules if r.typeString == "IMPORT_RULE"]
        if len(rules) != 1:
            raise Viol("import_kept", f"depth{depth}:import-rule-count", f"{name}: {len(rules)} @import rules, expected 1")
        self.judge_import(rules[0], child, norm(sheet.encoding) if any(r.typeString == "CHARSET_RULE" for r in sheet.cssRules) else None, depth + 1, override)

    def judge_import(self, rule, child, parent_enc, depth, override):
        c = self.docs[child]
        sub = rule.styleSheet
        if c["fault"]:
            self.stats["probe:fetch_fault"] += 1
            self.stats["oracle"] += 1
            if sub is not None and len(sub.cssRules):
                raise Viol("fetch_fault_unloaded", f"depth{depth}:fault-but-loaded", f"{child}: fetch fault {c['fault']} but the imported sheet has rules")
            return
        cb = wire_bytes(child, c)
        data = content(child, c) if c["as_text"] else cb
        used, rung = ladder(c, data, override, parent_enc)
        self.stats["probe:rung_" + rung] += 1
        exp = MARK if c["as_text"] else expected_marker(cb, used)
        if exp is None:
            self.stats["probe:undecodable_import_unloaded"] += 1
            self.stats["fault:LYING_CHARSET"] += 1
            self.stats["oracle"] += 1
            if sub is not None and marker_of(sub) is not None:
                raise Viol("ladder_marker", f"depth{depth}:{rung}:loaded-although-undecodable", f"{child}: bytes do not decode under {used} ({rung}) but the sheet was loaded with marker {marker_of(sub)!r}")
            return
        if sub is None or marker_of(sub) is None and not len(sub.cssRules):
            raise Viol("ladder_marker", f"depth{depth}:{rung}:not-loaded", f"{child} (wire {c['wire']}, decl {c['decl']}, http {c['http']}, text={c['as_text']}, parent {parent_enc}, override {override}): decodes under {used} ({rung}) but the import is not loaded")
        self.judge(sub, child, used, rung, exp, c["as_text"], depth, override)

    # ------------------------------------------------------------------ after every edit
    def check(self, where):
        s = self.sheet
        if s is None:
            return
        self.stats["oracle"] += 1
        cs = [r for r in s.cssRules if r.typeString == "CHARSET_RULE"]
        want = cs[0].encoding if cs else "utf-8"
        if s.encoding != want:
            raise Viol("encoding_mirrors_charset_rule", f"{where}:encoding-attr", f"sheet.encoding={s.encoding!r} but @charset rule says {want!r}")
        k, b = lib.call(lambda: s.cssText)
        if k != "ok":
            raise Viol("serialise", f"{where}:cssText-raises:{lib.ename(b)}", f"cssText raised {b!r} with encoding {s.encoding!r}")
        if not isinstance(b, bytes):
            raise Viol("serialise", f"{where}:not-bytes", f"cssText is {type(b).__name__}")
        try:
            text = b.decode(s.encoding)
        except (UnicodeDecodeError, LookupError) as e:
            raise Viol("serialisation_decodable", f"{where}:undecodable", f"cssText {b!r} does not decode under {s.encoding!r}: {e!r}")
        return text

    def restart(self):
        cu, s = self.cu, self.sheet
        if s is None:
            return "nosheet"
        text = self.check("restart")
        k, s2 = lib.call(lambda: cu.CSSParser(fetcher=self.net.fetch).parseString(text, href="http://h/root.css"))
        if k != "ok":
            raise Viol("restart_same_dom", f"restart:reparse-raises:{lib.ename(s2)}", f"{text!r}: {s2!r}")
        self.stats["oracle"] += 1

        def own(sheet):
            out = []
            for r in sheet.cssRules:
                p = P.p_rule(r)
                if p[0] == "IMPORT_RULE":
                    p = p[:4]  # whether the target loads again depends on the (new) referring encoding
                out.append(p)
            return out

        a, b = own(s), own(s2)
        if a != b:
            # locate
            for x, y in zip(a, b):
                if x != y:
                    if x[0] == "COMMENT" and y[0] == "COMMENT":
                        self.soft.append({"inv": "restart_same_dom", "sig": "restart:comment-text-escaped", "detail": f"comment {x[1]!r} comes back as {y[1]!r} (sheet encoding {s.encoding})"})
                        a2 = [p for p in a if p[0] != "COMMENT"]
                        b2 = [p for p in b if p[0] != "COMMENT"]
                        if a2 == b2:
                            return "same-modulo-comment"
                        x, y = next(((p, q) for p, q in zip(a2, b2) if p != q), (a2, b2))
                    raise Viol("restart_same_dom", f"restart:{x[0] if isinstance(x, tuple) else 'rules'}", f"encoding {s.encoding}: rule {x!r} comes back as {y!r} from {text!r}")
            raise Viol("restart_same_dom", "restart:rule-count", f"{len(a)} rules, reparsed {len(b)}: {text!r}")
        return "same"

    def step(self, op):
        cu, s, k = self.cu, self.sheet, op["op"]
        if s is None:
            return "nosheet"
        out = "?"
        if k == "add_import":
            n0 = len(s.cssRules)
            kk, v = lib.call(s.add, op.get("spelling", '@import "{}";').format(op["name"]))
            rules = [r for r in s.cssRules if r.typeString == "IMPORT_RULE"]
            if kk == "ok" and len(s.cssRules) == n0 + 1 and rules:
                self.stats["probe:import_added_after_parse"] += 1
                self.stats["accepted"] += 1
                new = rules[-1]
                parent_enc = norm(s.encoding) if any(r.typeString == "CHARSET_RULE" for r in s.cssRules) else None
                # a sheet parsed with an override: insertRule re-resolves without it (the statement's
                # override clause speaks of the parse) - judge only when no override was given
                if not self.cfg["override"]:
                    self.judge_import(new, op["name"], parent_enc, 1, None)
                out = "added"
            else:
                out = "rejected"
        elif k == "set_encoding":
            kk, v = lib.call(setattr, s, "encoding", op["value"])
            out = "ok" if kk == "ok" else "rejected:" + lib.ename(v)
            if kk == "exc":
                self.stats["unexpected:set_encoding:" + lib.ename(v)] += 1
            if kk == "ok":
                self.stats["accepted"] += 1
        elif k == "add_content":
            kk, v = lib.call(s.add, op["text"])
            if kk == "ok":
                self.stats["accepted"] += 1
                self.stats["probe:escape_in_" + op["where"]] += 1
            out = "ok" if kk == "ok" else "rejected:" + lib.ename(v)
        elif k == "restart":
            out = self.restart()
        else:
            raise ValueError(k)
        self.stats[f"op:{k}:{out.split(':')[0]}"] += 1
        self.check(k)
        return out

    def finish(self):
        if self.sheet is not None:
            self.restart()

    def state(self):
        s = self.sheet
        return (self.cfg["entry"], bool(self.cfg["override"]), None if s is None else (norm(s.encoding), len(s.cssRules)))


CHARS = ["ä", "é", "€", "ж", "中", "\U0001f600", "ÿ", "Δ", "\ud800", "\\dfff ", "\U0010ffff", "\u00a5", "\u00a2", "\u203e", "\\\u00e4", "\\\u4e2d"]  # incl. lone surrogates: no encoding represents them


def gen_op(r, w, i):
    cfg = w.cfg
    if i >= cfg["n_ops"] or w.sheet is None:
        return None
    k = r.choice(["add_import", "set_encoding", "set_encoding", "add_content", "add_content", "add_content", "restart"])
    if k == "add_import":
        return {"op": k, "name": r.choice([n for n in cfg["docs"] if n != "root.css"] or ["a.css"]), "spelling": r.choice(['@import "{}";', '@import "{}";', '@IMPORT "{}";', ' @import "{}";', '\n@import url({});', '@Import url("{}") all;', '/*c*/@import "{}";'])}
    if k == "set_encoding":
        return {"op": k, "value": r.choice(["ascii", "ascii", "iso-8859-1", "koi8-r", "utf-8", "utf-16", None, "iso-8859-15", "shift_jis", "euc_jp", "cp932", "gbk", "cp950", "cp500", "utf-7"])}
    if k == "add_content":
        c = r.choice(CHARS)
        where = r.choice(["identifier", "string", "url", "comment", "identifier", "string", "atkeyword"])
        text = {
            "identifier": f".k{c}x, #i{c} {{ left: 0 }}",
            "string": f'q {{ content: "a{c}b"; font-family: "{c}", x{c} }}',
            "url": f"u {{ background: url(i{c}.png) }}",
            "comment": f"/* c{c} */",
            "atkeyword": f"@f{c}t x;" if c.isalpha() else f"@ft {c};",
        }[where]
        return {"op": k, "where": where, "text": text}
    return {"op": "restart"}
