"""C11 - a rejected DOM mutation changes nothing (atomicity; the DOM exception is the crash, the DOM
is the durable state).

World: a sheet in a prior state reached by a short accepted history, error mode 'raise'; plus a
population of objects constructed read-only.  Workload: every public mutator, with new content whose
first malformed / hierarchy-violating / namespace-undeclared construct sits at slot k (abort point):
immediately, after j accepted parts, or inside a nested object.
Oracle: if the call raises xml.dom.DOMException, the snapshot (projection + cssText of target, owning
rule and sheet, namespaces) afterwards is identical.  Read-only objects reject every mutator that way.
"""
import collections

from sim.gen import css as G
from sim.kit import lib
from sim.kit.runner import Viol
from sim.obs import project as P
from sim.world import simlog, simnet

ID = "C11"
FORK = True
RUNS = {"quick": 12_000, "thorough": 250_000}
RULE = "run = sheet in a seeded prior state + seeded sequence of mutator calls whose argument has its first bad construct at slot k (abort point); every DOMException is followed by a before/after snapshot comparison"
REAL = ["cssutils/css/* (all rule classes, declaration, property, value, selector, selector list)", "cssutils/stylesheets/medialist.py, mediaquery.py", "cssutils/util.py (_Namespaces, _checkReadonly)", "cssutils/errorhandler.py"]
STUBS = ["SimNet fetcher for @import targets", "SimLog log sink"]
ASSUMPTIONS = ["non-DOM exceptions escaping a mutator are counted, not judged (the statement is about DOM exceptions)", "observation = public accessors + serialisation (projection of the whole sheet)"]
PROBES = ["abort_after_accepted_part", "abort_immediately", "abort_in_nested_object", "readonly_rejected"]

NS_DECL = '@namespace p "u1"; @namespace "u0";'


def config(rs, run, tier):
    r = rs("config")
    return {
        "n_ops": r.choice([1, 2, 3, 4, 6, 8, 12]),
        "abort_rate": r.choice([0.25, 0.4, 0.4, 0.7]),
        "sheet": _initial_sheet(rs("content")),
        "readonly": r.random() < 0.15,
    }


def _initial_sheet(r):
    parts = []
    if r.random() < 0.3:
        parts.append('@charset "utf-8";')
    if r.random() < 0.5:
        parts.append(r.choice(['@import "a.css" print;', '@import "a.css" print;', '@import "a.css" all;', '@import "a.css";', '@import "a.css" tv, print;']))
    if r.random() < 0.6:
        k = r.random()
        if k < 0.35:
            # further declarations no selector uses (they can be superseded, the ones below cannot)
            parts.append(r.choice(['@namespace a "u2";', '@namespace a "u2"; @namespace b "u3";', '@namespace q "u9";']))
        parts.append(NS_DECL)
    for _ in range(r.randrange(1, 5)):
        parts.append(G.rule(r, r.choice(["style", "style", "media", "page", "fontface", "comment", "unknown", "variables"])))
    if r.random() < 0.5:
        parts.append("p|x, |y, *|z { left: 1px }" if NS_DECL in parts else "x { left: 1px }")
    return "\n".join(parts)


def all_rules(container):
    out = []
    for r in container.cssRules:
        out.append(r)
        if hasattr(r, "cssRules") and r.typeString in ("MEDIA_RULE", "PAGE_RULE"):
            out.extend(all_rules(r))
    return out


class World:
    def __init__(self, cfg):
        import cssutils

        self.cu = cu = cssutils
        self.cfg = cfg
        self.stats = collections.Counter()
        self.log = simlog.install()
        self.net = simnet.SimNet({"http://h/a.css": {"text": "i { top: 0 }", "enc": None}, "http://h/bad.css": {"text": "j { top: ( } k {", "enc": None}, "http://h/b.css": {"text": "@variables { v: 1 } j { top: var(v) }", "enc": None}}, self.stats)
        cu.log.raiseExceptions = False
        self.sheet = cu.CSSParser(fetcher=self.net.fetch).parseString(cfg["sheet"], href="http://h/root.css")
        cu.log.raiseExceptions = True

    def snapshot(self, extra=None):
        s = self.sheet
        snap = [P.p_sheet(s), _text(lambda: s.cssText), tuple(sorted(s.namespaces.items())), tuple(sorted((n, s.variables[n]) for n in s.variables.keys()))]
        if extra is not None:
            snap.append(extra())
        return snap

    # target resolution: total (index modulo population)
    def target(self, op):
        s, t = self.sheet, op["t"]
        rules = all_rules(s)
        if t == "sheet":
            return s, None
        kind = op.get("kind")
        pop = [r for r in rules if kind is None or r.typeString == kind]
        if not pop:
            return None, None
        rule = pop[op.get("i", 0) % len(pop)]
        if t == "rule":
            return rule, rule
        if t == "style":
            return getattr(rule, "style", None), rule
        if t == "property":
            st = getattr(rule, "style", None)
            props = st.getProperties(all=True) if st is not None else []
            return (props[op.get("j", 0) % len(props)] if props else None), rule
        if t == "value":
            st = getattr(rule, "style", None)
            props = st.getProperties(all=True) if st is not None else []
            return (props[op.get("j", 0) % len(props)].propertyValue if props else None), rule
        if t == "selectorlist":
            return getattr(rule, "selectorList", None), rule
        if t == "selector":
            sl = getattr(rule, "selectorList", None)
            return (sl[op.get("j", 0) % len(sl)] if sl is not None and len(sl) else None), rule
        if t == "media":
            return getattr(rule, "media", None), rule
        if t == "mediaquery":
            ml = getattr(rule, "media", None)
            qs = [i.value for i in ml] if ml is not None else []
            return (qs[op.get("j", 0) % len(qs)] if qs else None), rule
        if t == "variables":
            return getattr(rule, "variables", None), rule
        raise ValueError(t)

    def step(self, op):
        if op["op"] == "readonly":
            return self.readonly_step(op)
        obj, owner = self.target(op)
        if obj is None:
            return "notarget"
        m, a = op["m"], op.get("a", [])
        cls = type(obj).__name__
        extra = None
        if owner is not None:
            extra = lambda: (P.p_rule(owner), _text(lambda: owner.cssText), _text(lambda: getattr(obj, "cssText", None)))  # noqa: E731
        before = self.snapshot(extra)
        if m.startswith("set:"):
            k, v = lib.call(setattr, obj, m[4:], a[0])
        elif m == "ns_set":
            k, v = lib.call(obj.namespaces.__setitem__, a[0], a[1])
        elif m == "ns_del":
            k, v = lib.call(obj.namespaces.__delitem__, a[0])
        elif m == "insert_rule_list":
            # a list of rule objects (taken from another, throw-away sheet) is inserted as a whole
            mode = self.cu.log.raiseExceptions
            self.cu.log.raiseExceptions = False
            try:
                src = self.cu.parseString(a[0]).cssRules
            finally:
                self.cu.log.raiseExceptions = mode
            if not hasattr(obj, "insertRule"):
                return "nomethod"
            k, v = lib.call(obj.insertRule, src, a[1] % (len(obj.cssRules) + 2))
        elif m == "setProperty_object":
            # a Property object built while errors are only logged (so it may carry what raise mode refuses, e.g. a
            # priority that is no CSS priority) is handed to setProperty of a declaration that may hold the name
            mode = self.cu.log.raiseExceptions
            self.cu.log.raiseExceptions = False
            try:
                k, prop = lib.call(self.cu.css.Property, a[0], a[1], a[2])
            finally:
                self.cu.log.raiseExceptions = mode
            if k != "ok":
                return "noobject"
            k, v = lib.call(obj.setProperty, prop)
        elif m == "insert_ns_object":
            rule = self.cu.css.CSSNamespaceRule(namespaceURI=a[1], prefix=a[0])
            k, v = lib.call(obj.insertRule, rule, a[2] % (len(obj.cssRules) + 2))
        elif m == "setitem":
            k, v = lib.call(obj.__setitem__, a[0] % (len(obj) + 1) if isinstance(a[0], int) else a[0], a[1])
        elif m == "delitem":
            k, v = lib.call(obj.__delitem__, a[0])
        else:
            f = getattr(obj, m, None)
            if f is None:
                return "nomethod"
            if m in ("insertRule",) and len(a) > 1:
                a = [a[0], a[1] % (len(obj.cssRules) + 2) - 0]
            if m == "deleteRule":
                a = [a[0] % (len(obj.cssRules) + 2)]
            k, v = lib.call(f, *a)
        name = f"{cls}.{m}"
        if k == "exc":
            self.stats[f"unexpected:{name}:{lib.ename(v)}"] += 1
            self.stats[f"op:{name}:exc"] += 1
            return "exc:" + lib.ename(v)
        if k == "ok":
            self.stats["accepted"] += 1
            self.stats[f"op:{name}:accepted"] += 1
            return "accepted"
        # rejected with a DOM exception: nothing may have changed
        self.stats[f"op:{name}:{lib.ename(v)}"] += 1
        self.stats["fault:ABORT_" + lib.ename(v)] += 1
        self.stats["oracle"] += 1
        where = op.get("abort")
        if where:
            self.stats["probe:abort_" + where] += 1
        after = self.snapshot(extra)
        if before != after:
            diff = "sheet projection" if before[0] != after[0] else "sheet cssText" if before[1] != after[1] else "namespaces" if before[2] != after[2] else "sheet variables" if before[3] != after[3] else "owning rule / target"
            raise Viol("rejected_changes_nothing", name, f"{name}({', '.join(repr(x)[:120] for x in a)}) raised {lib.ename(v)} but changed the {diff}: before={_first_diff(before, after)}")
        return "rejected:" + lib.ename(v)

    def readonly_step(self, op):
        cu = self.cu
        make = {
            "CSSStyleDeclaration": lambda: cu.css.CSSStyleDeclaration("color: red; left: 1px", readonly=True),
            "MediaList": lambda: cu.stylesheets.MediaList("print, tv", readonly=True),
            "Selector": lambda: cu.css.Selector("a > b", readonly=True),
            "SelectorList": lambda: cu.css.SelectorList("a, b", readonly=True),
            "CSSStyleRule": lambda: cu.css.CSSStyleRule(selectorText="a", style="color: red", readonly=True),
            "CSSMediaRule": lambda: cu.css.CSSMediaRule(mediaText="print", readonly=True),
            "CSSImportRule": lambda: cu.css.CSSImportRule(href="x.css", mediaText="print", readonly=True),
            "CSSNamespaceRule": lambda: cu.css.CSSNamespaceRule(namespaceURI="u", prefix="p", readonly=True),
            "CSSPageRule": lambda: cu.css.CSSPageRule(selectorText=":first", style="margin: 0", readonly=True),
            "CSSFontFaceRule": lambda: cu.css.CSSFontFaceRule(style="font-family: x", readonly=True),
            "CSSCharsetRule": lambda: cu.css.CSSCharsetRule(encoding="utf-8", readonly=True),
            "CSSComment": lambda: cu.css.CSSComment("/*x*/", readonly=True),
            "CSSUnknownRule": lambda: cu.css.CSSUnknownRule("@x y;", readonly=True),
            "CSSStyleSheet": lambda: cu.css.CSSStyleSheet(readonly=True),
            "PropertyValue": lambda: cu.css.PropertyValue("1px red", readonly=True),
            "CSSVariablesDeclaration": lambda: cu.css.CSSVariablesDeclaration("x: 1", readonly=True),
            "MarginRule": lambda: cu.css.MarginRule("@top-left", "color: red", readonly=True),
            "Value": lambda: cu.css.Value("red", readonly=True),
            "ColorValue": lambda: cu.css.ColorValue("#fff", readonly=True),
            "DimensionValue": lambda: cu.css.DimensionValue("1px", readonly=True),
            "URIValue": lambda: cu.css.URIValue("url(x)", readonly=True),
        }[op["cls"]]
        k, obj = lib.call(make)
        if k != "ok":
            self.stats[f"unexpected:readonly-ctor:{op['cls']}:{lib.ename(obj)}"] += 1
            return "ctor:" + lib.ename(obj)
        snap = lambda: (_text(lambda: getattr(obj, "cssText", None)), _text(lambda: getattr(obj, "mediaText", None)), _text(lambda: getattr(obj, "selectorText", None)))  # noqa: E731
        before = snap()
        m, a = op["m"], op.get("a", [])
        if m.startswith("set:"):
            if not hasattr(obj, m[4:]):
                return "noattr"
            k, v = lib.call(setattr, obj, m[4:], a[0])
        else:
            f = getattr(obj, m, None)
            if f is None:
                return "nomethod"
            k, v = lib.call(f, *a)
        name = f"readonly:{op['cls']}.{m}"
        self.stats["oracle"] += 1
        self.stats["fault:READONLY"] += 1
        if k == "dom":
            self.stats["probe:readonly_rejected"] += 1
            self.stats[f"op:{name}:{lib.ename(v)}"] += 1
            if snap() != before:
                raise Viol("rejected_changes_nothing", name, f"{name} raised {lib.ename(v)} but changed the object: {before!r} -> {snap()!r}")
            if lib.ename(v) != "NoModificationAllowedErr":
                # rejected for another reason before the read-only check: still unchanged, fine
                return "rejected:" + lib.ename(v)
            return "rejected"
        if k == "exc":
            self.stats[f"unexpected:{name}:{lib.ename(v)}"] += 1
            return "exc"
        if snap() != before:
            raise Viol("readonly_rejects_mutators", name, f"{name}({a!r}) was accepted on a read-only object and changed it: {before!r} -> {snap()!r}")
        raise Viol("readonly_rejects_mutators", name + ":silently-accepted", f"{name}({a!r}) returned normally on a read-only object (unchanged)")

    def finish(self):
        pass

    def state(self):
        s = self.sheet
        return tuple(r.typeString for r in all_rules(s))[:12]


def _text(f):
    k, v = lib.call(f)
    return v if k == "ok" else ("EXC", lib.ename(v))


def _first_diff(a, b):
    sa, sb = repr(a), repr(b)
    i = 0
    while i < min(len(sa), len(sb)) and sa[i] == sb[i]:
        i += 1
    return f"...{sa[max(0, i - 60): i + 100]!r} after=...{sb[max(0, i - 60): i + 100]!r}"


# ------------------------------------------------------------------------------------------------
# argument generation with abort placement


def parts_with_abort(r, good, bad, abort, sep):
    """j good parts + one bad + m good parts; returns (text, where)"""
    if not abort:
        return sep.join(good(r) for _ in range(r.randrange(1, 4))), None
    j = r.choice([0, 0, 1, 2, 3])
    m = r.choice([0, 0, 1, 2])
    items = [good(r) for _ in range(j)] + [bad(r)] + [good(r) for _ in range(m)]
    return sep.join(items), ("immediately" if j == 0 else "after_accepted_part")


BAD_RULES = ["a { color: red", "{ }", "a,, b { }", "@import 'late.css';", '@charset "x";', "@namespace q 'late';", "un|declared { }", "a { color: red } }", "@media { }", "@page :bogus { }", "1a { }", "a { $: 1 }", "@media print { @import 'x'; }", "a { x: ( }"]
BAD_NESTED = ["@media print { a { color: red } b { left: ;;( } c {", "@media print { a { } un|d { } }", "@media print { a { } @charset 'x'; }", "@page { margin: 0; @top-left { content: ( } @bogus-margin { } }", "a { color: red; left: 1;2 }"]


def good_rule(r):
    return G.rule(r, r.choice(["style", "style", "media", "page", "comment", "fontface", "variables", "unknown"]))


def bad_rule(r):
    return r.choice(BAD_RULES + BAD_NESTED)


def gen_op(r, w, i):
    cfg = w.cfg
    if i >= cfg["n_ops"]:
        return None
    if cfg["readonly"] and r.random() < 0.8:
        cls = r.choice(["MarginRule", "Value", "ColorValue", "DimensionValue", "URIValue", "CSSStyleDeclaration", "MediaList", "Selector", "SelectorList", "CSSStyleRule", "CSSMediaRule", "CSSImportRule", "CSSNamespaceRule", "CSSPageRule", "CSSFontFaceRule", "CSSCharsetRule", "CSSComment", "CSSUnknownRule", "CSSStyleSheet", "PropertyValue", "CSSVariablesDeclaration"])
        muts = {
            "CSSStyleDeclaration": [("set:cssText", ["top: 0"]), ("setProperty", ["top", "0"]), ("removeProperty", ["color"]), ("set:color", ["blue"])],
            "MediaList": [("set:mediaText", ["screen"]), ("appendMedium", ["screen"]), ("deleteMedium", ["print"]), ("__delitem__", [0])],
            "MarginRule": [("set:cssText", ["@top-right { left: 0 }"]), ("set:margin", ["@top-right"]), ("set:style", ["left: 0"])],
            "Value": [("set:cssText", ["blue"]), ("set:value", ["blue"])],
            "ColorValue": [("set:cssText", ["#000"])],
            "DimensionValue": [("set:cssText", ["2px"])],
            "URIValue": [("set:cssText", ["url(y)"]), ("set:uri", ["y"])],
            "Selector": [("set:selectorText", ["b"])],
            "SelectorList": [("set:selectorText", ["b"]), ("appendSelector", ["c"]), ("__delitem__", [0])],
            "CSSStyleRule": [("set:cssText", ["b { top: 0 }"]), ("set:selectorText", ["b"]), ("set:style", ["top: 0"])],
            "CSSMediaRule": [("set:cssText", ["@media tv { a { top: 0 } }"]), ("insertRule", ["a { top: 0 }"]), ("add", ["a { top: 0 }"]), ("set:name", ["n"])],
            "CSSImportRule": [("set:cssText", ["@import 'y.css';"]), ("set:name", ["n"]), ("set:media", ["tv"]), ("set:href", ["y.css"])],
            "CSSNamespaceRule": [("set:cssText", ["@namespace q 'v';"]), ("set:prefix", ["q"]), ("set:namespaceURI", ["v"])],
            "CSSPageRule": [("set:cssText", ["@page :left { margin: 1px }"]), ("set:selectorText", [":left"]), ("set:style", ["margin: 1px"])],
            "CSSFontFaceRule": [("set:cssText", ["@font-face { font-family: y }"]), ("set:style", ["font-family: y"])],
            "CSSCharsetRule": [("set:cssText", ['@charset "ascii";']), ("set:encoding", ["ascii"])],
            "CSSComment": [("set:cssText", ["/*y*/"])],
            "CSSUnknownRule": [("set:cssText", ["@y z;"])],
            "CSSStyleSheet": [("set:cssText", ["a { top: 0 }"]), ("insertRule", ["a { top: 0 }", 0]), ("add", ["a { top: 0 }"]), ("set:encoding", ["ascii"])],
            "PropertyValue": [("set:cssText", ["2px"])],
            "CSSVariablesDeclaration": [("set:cssText", ["y: 2"]), ("setVariable", ["y", "2"]), ("removeVariable", ["x"])],
        }[cls]
        m, a = r.choice(muts)
        return {"op": "readonly", "cls": cls, "m": m, "a": a}
    abort = r.random() < cfg["abort_rate"]
    choice = r.choice(
        ["sheet.cssText", "sheet.insertRule", "sheet.add", "sheet.deleteRule", "sheet.encoding", "sheet.ns_set", "sheet.ns_del", "sheet.ns_object", "rule.cssText", "rule.cssText", "style.cssText", "style.setProperty", "property", "value.cssText", "selectorlist", "selector.selectorText", "stylerule.selectorText", "media.mediaText", "media.append", "media.delete", "mediaquery", "mediarule.insertRule", "mediarule.deleteRule", "mediarule.add", "import", "import", "namespace", "page", "charset", "variables", "margin", "rulelist"]
    )
    i_, j_ = r.randrange(0, 8), r.randrange(0, 6)
    if choice == "sheet.cssText":
        text, where = parts_with_abort(r, good_rule, bad_rule, abort, "\n")
        return {"op": "mut", "t": "sheet", "m": "set:cssText", "a": [text], "abort": where}
    if choice in ("sheet.insertRule", "sheet.add"):
        kind = r.choice(G.KINDS)
        text = bad_rule(r) if abort else G.rule(r, kind)
        if choice == "sheet.add":
            return {"op": "mut", "t": "sheet", "m": "add", "a": [text], "abort": "immediately" if abort else None}
        return {"op": "mut", "t": "sheet", "m": "insertRule", "a": [text, r.randrange(0, 9)], "abort": "immediately" if abort else None}
    if choice == "sheet.deleteRule":
        return {"op": "mut", "t": "sheet", "m": "deleteRule", "a": [r.randrange(0, 9)]}
    if choice == "sheet.encoding":
        return {"op": "mut", "t": "sheet", "m": "set:encoding", "a": [r.choice(["utf-8", "ascii", "iso-8859-1", "x-unknown-codec", "", None]) if not abort else r.choice(["x-unknown-codec", "not a codec", "css"])]}
    if choice == "sheet.ns_set":
        return {"op": "mut", "t": "sheet", "m": "ns_set", "a": [r.choice(["p", "q", "", "r"]), r.choice(["u0", "u1", "u2", "u9"])]}
    if choice == "sheet.ns_object":
        return {"op": "mut", "t": "sheet", "m": "insert_ns_object", "a": [r.choice(["p", "q", "", "a", "b"]), r.choice(["u0", "u1", "u2", "u3", "u9"]), r.randrange(0, 9)]}
    if choice == "sheet.ns_del":
        return {"op": "mut", "t": "sheet", "m": "ns_del", "a": [r.choice(["p", "q", "", "zz"])]}
    if choice == "rule.cssText":
        kind = r.choice(["STYLE_RULE", "MEDIA_RULE", "MEDIA_RULE", "PAGE_RULE", "FONT_FACE_RULE", "COMMENT", "UNKNOWN_RULE", "VARIABLES_RULE"])
        gk = {"STYLE_RULE": "style", "MEDIA_RULE": "media", "PAGE_RULE": "page", "FONT_FACE_RULE": "fontface", "COMMENT": "comment", "UNKNOWN_RULE": "unknown", "VARIABLES_RULE": "variables"}[kind]
        if not abort:
            text, where = G.rule(r, gk), None
        elif kind == "MEDIA_RULE":
            inner, where = parts_with_abort(r, lambda r: G.rule(r, "style"), lambda r: r.choice(["b { left: ;;( } c {", "un|d { }", "@charset 'x';", "@import 'x';", "a,, { }", "@namespace x 'y';"]), True, " ")
            text = f"@media {r.choice(['print', 'tv, screen'])} {{ {inner} }}"
            where = "in_nested_object" if where == "after_accepted_part" and r.random() < 0.5 else where
        elif kind == "STYLE_RULE":
            d, where = parts_with_abort(r, G.declaration, G.bad_declaration, True, "; ")
            text = f"{G.selector_list(r)} {{ {d} }}" if r.random() < 0.7 else f"{G.selector_list(r, bad=1.0)} {{ {G.decl_block(r)} }}"
        elif kind == "PAGE_RULE":
            d, where = parts_with_abort(r, G.declaration, G.bad_declaration, True, "; ")
            text = f"@page {r.choice(['', ':first', ':bogus'])} {{ {d} }}"
        else:
            text, where = r.choice(["@media print { a { } }", "a { }", "/* x", "@x {", "@font-face { x: ( }", "@variables { x: ( }", ""]), "immediately"
        return {"op": "mut", "t": "rule", "kind": kind, "i": i_, "m": "set:cssText", "a": [text], "abort": where}
    if choice == "style.cssText":
        d, where = parts_with_abort(r, G.declaration, G.bad_declaration, abort, "; ")
        return {"op": "mut", "t": "style", "kind": r.choice(["STYLE_RULE", "PAGE_RULE", "FONT_FACE_RULE"]), "i": i_, "m": "set:cssText", "a": [d], "abort": where}
    if choice == "style.setProperty" and r.random() < 0.3:
        n, vals = r.choice(G.PROPS)
        return {"op": "mut", "t": "style", "kind": "STYLE_RULE", "i": i_, "m": "setProperty_object", "a": [n, r.choice(vals), r.choice(["", "important", "!ie", "!bogus", "!IMPORTANT", "ie"] if abort else ["", "important", "!important"])], "abort": "immediately" if abort else None}
    if choice == "style.setProperty":
        n, vals = r.choice(G.PROPS)
        return {"op": "mut", "t": "style", "kind": "STYLE_RULE", "i": i_, "m": "setProperty", "a": [n, r.choice(["1;2", "(", "red }", "a: b"]) if abort else r.choice(vals), r.choice(["", "important", "bogus" if abort else ""])], "abort": "immediately" if abort else None}
    if choice == "property":
        m = r.choice(["set:cssText", "set:name", "set:value", "set:priority", "set:propertyValue"])
        if m == "set:cssText":
            a = r.choice(["color: 1;2", "top: (", "left", ": x", "color: red !bogus", "1a: b", "top: 1px !important !important"]) if abort else G.declaration(r)
            where = "after_accepted_part" if abort and a[:1].isalpha() else ("immediately" if abort else None)
        elif m == "set:name":
            a, where = (r.choice(["1a", "", "a b", "a:", "("]) if abort else r.choice(["top", "COLOR", "x-y"])), "immediately" if abort else None
        elif m == "set:priority":
            a, where = (r.choice(["importan", "!", "1", "a b", "important important", "!foo", "! ie", "!importan"]) if abort else r.choice(["", "important", "!important"])), "immediately" if abort else None
        else:
            a, where = (r.choice(["1;2", "(", "red }", "", "a: b"]) if abort else r.choice(["red", "1px", "url(x)"])), "immediately" if abort else None
        return {"op": "mut", "t": "property", "kind": r.choice(["STYLE_RULE", "PAGE_RULE"]), "i": i_, "j": j_, "m": m, "a": [a], "abort": where}
    if choice == "value.cssText":
        a, where = parts_with_abort(r, lambda r: r.choice(["1px", "red", "url(x)", "\"s\"", "f(1)"]), lambda r: r.choice(["(", ";", "}", "f(", "1;2", "!"]), abort, " ")
        return {"op": "mut", "t": "value", "kind": "STYLE_RULE", "i": i_, "j": j_, "m": "set:cssText", "a": [a], "abort": where}
    if choice == "selectorlist":
        m = r.choice(["set:selectorText", "appendSelector"])
        if m == "appendSelector":
            return {"op": "mut", "t": "selectorlist", "kind": "STYLE_RULE", "i": i_, "m": m, "a": [r.choice(["a,, b", ">", "un|d", "a[", "a, b"]) if abort else G.selector(r)], "abort": "immediately" if abort else None}
        a, where = parts_with_abort(r, G.selector, lambda r: r.choice(["a >", "1a", "a[", "un|d", ":not(", "a..b", ""]), abort, ", ")
        return {"op": "mut", "t": "selectorlist", "kind": "STYLE_RULE", "i": i_, "m": m, "a": [a], "abort": where}
    if choice == "selector.selectorText":
        return {"op": "mut", "t": "selector", "kind": "STYLE_RULE", "i": i_, "j": j_, "m": "set:selectorText", "a": [r.choice(["a >", "a, b", "un|d", "a[", "b c >"]) if abort else G.selector(r)], "abort": "after_accepted_part" if abort else None}
    if choice == "stylerule.selectorText":
        a, where = parts_with_abort(r, G.selector, lambda r: r.choice(["a >", "1a", "a[", "un|d", ":not(", ""]), abort, ", ")
        return {"op": "mut", "t": "rule", "kind": "STYLE_RULE", "i": i_, "m": "set:selectorText", "a": [a], "abort": where}
    if choice == "media.mediaText":
        a, where = parts_with_abort(r, G.media_query, lambda r: r.choice(["print and", "screen and (x", "3d", "(", "print screen", "tv and and (color)", "", "/*x*/", "/*x*/ 3d", "print /*c*/ and"]), abort, ", ")
        if abort and r.random() < 0.3:
            a, where = r.choice(["/*x*/", "/*x*/ /*y*/", " ", "/**/,"]), "immediately"  # parses, but holds no medium
        return {"op": "mut", "t": "media", "kind": r.choice(["MEDIA_RULE", "IMPORT_RULE"]), "i": i_, "m": "set:mediaText", "a": [a], "abort": where}
    if choice == "media.append":
        return {"op": "mut", "t": "media", "kind": r.choice(["MEDIA_RULE", "IMPORT_RULE"]), "i": i_, "m": "appendMedium", "a": [r.choice(["3d", "print and", "(", "print, tv"]) if abort else G.media_query(r)], "abort": "immediately" if abort else None}
    if choice == "media.delete":
        return {"op": "mut", "t": "media", "kind": r.choice(["MEDIA_RULE", "IMPORT_RULE"]), "i": i_, "m": "deleteMedium", "a": [r.choice(G.MEDIA)]}
    if choice == "mediaquery":
        m = r.choice(["set:mediaText", "set:mediaType"])
        if m == "set:mediaType":
            a = r.choice(["3d", "bogus", "", "a b"]) if abort else r.choice(G.MEDIA)
        else:
            a = r.choice(["print and", "screen and (x", "print, tv", "("]) if abort else G.media_query(r)
        return {"op": "mut", "t": "mediaquery", "kind": r.choice(["MEDIA_RULE", "IMPORT_RULE"]), "i": i_, "j": j_, "m": m, "a": [a], "abort": "after_accepted_part" if abort else None}
    if choice in ("mediarule.insertRule", "mediarule.add"):
        text = r.choice(["@import 'x';", '@charset "x";', "@namespace a 'b';", "a { color: red", "un|d { }", "@font-face { }", "a,, { }"]) if abort else G.rule(r, r.choice(["style", "comment", "page", "unknown", "media"]))
        if choice.endswith("add"):
            return {"op": "mut", "t": "rule", "kind": "MEDIA_RULE", "i": i_, "m": "add", "a": [text], "abort": "immediately" if abort else None}
        return {"op": "mut", "t": "rule", "kind": "MEDIA_RULE", "i": i_, "m": "insertRule", "a": [text, r.randrange(0, 6)], "abort": "immediately" if abort else None}
    if choice == "mediarule.deleteRule":
        return {"op": "mut", "t": "rule", "kind": "MEDIA_RULE", "i": i_, "m": "deleteRule", "a": [r.randrange(0, 6)]}
    if choice == "import":
        m = r.choice(["set:cssText", "set:name", "set:href"])
        if m == "set:cssText":
            a = r.choice(["@import;", "@import 'a.css' 3d;", "@import url(x.css) print and;", "@media print {}", "@import 'x.css' print, (;", "@import 'a.css' tv 'name' junk;"]) if abort else G.import_rule(r)
        elif m == "set:name":
            a = r.choice([1, "n"]) if abort else r.choice(["n", "", None])
        else:
            a = r.choice(["a.css", "zz.css", "bad.css", "b.css", "bad.css"])  # bad.css: its content raises in raise mode
        return {"op": "mut", "t": "rule", "kind": "IMPORT_RULE", "i": i_, "m": m, "a": [a], "abort": "after_accepted_part" if abort else None}
    if choice == "namespace":
        m = r.choice(["set:cssText", "set:prefix", "set:namespaceURI"])
        if m == "set:cssText":
            a = r.choice(["@namespace;", "@namespace q;", "@namespace q 'changed-uri';", "@namespace 1q 'u1';", "@namespace q 'u1' junk;", "@namespace zz \"other\";"]) if abort else r.choice(['@namespace p "u1";', '@namespace zz "u1";', '@namespace "u0";'])
        elif m == "set:prefix":
            a = r.choice(["1a", "a b", "("]) if abort else r.choice(["zz", "p", ""])
        else:
            a = r.choice(["changed", ""])
        return {"op": "mut", "t": "rule", "kind": "NAMESPACE_RULE", "i": i_, "m": m, "a": [a], "abort": "after_accepted_part" if abort else None}
    if choice == "page":
        m = r.choice(["set:selectorText", "add", "insertRule"])
        if m == "set:selectorText":
            a = [r.choice([":bogus", "a b", ":first:first:", "1", "x:"]) if abort else r.choice(["", ":first", ":left", "named"])]
        else:
            a = [r.choice(["a { }", "@page { }", "@media print { }", "@bogus { }", "@top-left { content: ( }"]) if abort else "@top-left { content: 'x' }"]
            if m == "insertRule":
                a.append(r.randrange(0, 3))
        return {"op": "mut", "t": "rule", "kind": "PAGE_RULE", "i": i_, "m": m, "a": a, "abort": "immediately" if abort else None}
    if choice == "margin":
        m = r.choice(["set:cssText", "set:cssText", "set:margin"])
        if m == "set:cssText":
            a = r.choice(["@top-right { color: blue; $ }", "@top-left { content: ( }", "@bogus-box { left: 0 }", "@bottom-center { left: 1;2 }", "a { }"]) if abort else r.choice(["@top-right { color: blue }", "@bottom-center { content: 'x'; left: 0 }"])
        else:
            a = r.choice(["@bogus", "top-left", ""]) if abort else r.choice(["@top-right", "@bottom-center"])
        return {"op": "mut", "t": "rule", "kind": "MARGIN_RULE", "i": i_, "m": m, "a": [a], "abort": "after_accepted_part" if abort else None}
    if choice == "rulelist":
        good = [G.rule(r, r.choice(["style", "comment", "unknown", "page"])) for _ in range(r.randrange(1, 4))]
        if abort:
            good.insert(r.randrange(1, len(good) + 1), r.choice(['@namespace zz "late";', '@charset "utf-8";', '@import "late.css";']))
        if r.random() < 0.4:
            # the list starts with @namespace rules: one that declares a URI of the sheet under another prefix
            # supersedes (removes) the sheet's own rule when it is accepted - a later refusal has to bring that back
            good[0:0] = [G.namespace_rule(r) for _ in range(r.randrange(1, 3))]
        return {"op": "mut", "t": r.choice(["sheet", "sheet", "rule"]), "kind": "MEDIA_RULE", "i": i_, "m": "insert_rule_list", "a": [" ".join(good), r.randrange(0, 9)], "abort": "after_accepted_part" if abort else None}
    if choice == "charset":
        m = r.choice(["set:cssText", "set:encoding"])
        a = (r.choice(['@charset "x-bogus";', "@charset utf-8;", '@charset "utf-8"', "@import 'x';"]) if abort else '@charset "ascii";') if m == "set:cssText" else (r.choice(["x-bogus", "", "a b"]) if abort else "ascii")
        return {"op": "mut", "t": "rule", "kind": "CHARSET_RULE", "i": 0, "m": m, "a": [a], "abort": "immediately" if abort else None}
    if choice == "variables":
        a, where = parts_with_abort(r, lambda r: f"{r.choice(['x', 'y', 'z'])}: {r.choice(['1px', 'red'])}", lambda r: r.choice(["x: (", "1: 2", "x: 1;2 3", ": y"]), abort, "; ")
        return {"op": "mut", "t": "variables", "kind": "VARIABLES_RULE", "i": i_, "m": "set:cssText", "a": [a], "abort": where}
    raise ValueError(choice)
