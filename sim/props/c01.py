"""C01 - parsing any input returns a DOM: it never raises and never hangs.

What the simulator controls: the fetcher (content / None / nothing; acyclic and cyclic import graphs;
torn and undecodable documents; text instead of bytes), the parser options, and a deterministic tick
clock (entries into functions of the tree under test) that turns "time bounded by a low polynomial"
into a replayable invariant.  The state x token x nesting product is reached through generated
document content (token soup, damaged sheets, depth sweeps) - input generation, labelled as such.
"""
import collections
import os
import shutil
import tempfile
import threading

from sim.gen import css as G
from sim.kit import env, lib, ticks
from sim.kit.runner import Viol
from sim.world import simlog, simnet

ID = "C01"
FORK = True
HANG_IS_VIOLATION = True
RUNS = {"quick": 10_000, "thorough": 250_000}
RULE = "run = root document (token soup / damaged sheet / torn sheet / depth sweep; text or bytes with or without BOM and @charset) + import graph of 0-5 documents (tree, DAG, cycle, self-import) served by a seeded fetcher with faults + parser options; pipeline parse -> serialise (raise mode) -> serialise (log mode) -> reparse -> serialise under a tick budget"
REAL = ["cssutils/* (tokenizer, production parser, all DOM classes, serializer, codec)", "encutils"]
STUBS = ["SimNet fetcher (documents, faults, cycles)", "scratch file for parseFile", "SimLog", "tick clock (sys.monitoring PY_START restricted to the tree under test)"]
ASSUMPTIONS = [
    "tick budget 60*(n+64)^2 with n = characters delivered (root + fetched documents); calibrated on the repaired tree with > 50x head-room over the largest ratio seen (see DESIGN.md)",
    "fetchers that raise are the caller's failure and are not part of this property (statement: fetchers returning content, None or nothing)",
    "top-level byte input is decodable under the encoding that applies (the statement's restriction); undecodable bytes are only served as imports",
    "loops inside C code (re) are invisible to ticks; a wall-clock watchdog in the parent is the backstop",
]
PROBES = ["eof_in_string", "eof_in_comment", "eof_in_url", "eof_in_function", "eof_in_block", "atkeyword_after_cdo", "charset_at_eof", "var_or_rgb_at_eof", "cycle_hit", "fetch_none", "depth_ge_50", "torn_import", "undecodable_import"]

A, B, C = 20000, 60, 64


def budget(n):
    return A + B * (n + C) ** 2


def config(rs, run, tier):
    r = rs("config")
    return {"n_ops": 1, "kind": r.choice(["soup", "soup", "soup", "damaged", "torn", "depth", "repeat", "style", "graph", "graph", "charset"])}


class World:
    def __init__(self, cfg):
        import cssutils

        self.cu = cssutils
        self.cfg = cfg
        self.stats = collections.Counter()
        self.log = simlog.install()
        self.tmp = None
        cssutils.log.raiseExceptions = True  # the caller's mode; parsing switches to log mode by itself

    def close(self):
        if self.tmp:
            shutil.rmtree(self.tmp, ignore_errors=True)

    def probes(self, text):
        t = text
        st = self.stats
        if t.count('"') % 2 or t.count("'") % 2:
            st["probe:eof_in_string"] += 1
        if t.rfind("/*") > t.rfind("*/"):
            st["probe:eof_in_comment"] += 1
        if t.rfind("url(") > t.rfind(")"):
            st["probe:eof_in_url"] += 1
        if t.count("(") > t.count(")"):
            st["probe:eof_in_function"] += 1
        if t.count("{") > t.count("}"):
            st["probe:eof_in_block"] += 1
        if "<!--@" in t:
            st["probe:atkeyword_after_cdo"] += 1
        if t.rstrip(" ").endswith("@charset") or t.endswith("@charset "):
            st["probe:charset_at_eof"] += 1
        if t.endswith("var(") or t.endswith("rgb("):
            st["probe:var_or_rgb_at_eof"] += 1

    def step(self, op):
        # The pipeline runs in a thread of its own: documents nested deeper than the interpreter's recursion limit
        # are part of the workload, and where the limit is hit depends on how deep the caller's stack already is.
        # A new thread starts at a fixed depth, so a run is the same under every entry point of the harness.
        box = {}

        def run():
            try:
                box["result"] = self._step(op)
            except BaseException as e:  # noqa: BLE001
                box["error"] = e

        threading.stack_size(64 * 1024 * 1024)
        t = threading.Thread(target=run, name="c01-step")
        t.start()
        t.join()
        if "error" in box:
            raise box["error"]
        return box["result"]

    def _step(self, op):
        cu = self.cu
        docs = op.get("docs", {})
        net = simnet.SimNet(docs, self.stats)
        n = len(op["root"]) + sum(len(d.get("text", "")) + len(d.get("raw_hex", "")) // 2 for d in docs.values())
        self.probes(op["root"])
        entry = op["entry"]
        opts = dict(parseComments=op.get("comments", True), validate=op.get("validate", True))
        root = op["root"]
        data = root
        if op.get("bytes"):
            data = root.encode(op["bytes"], "replace")
            if op.get("bom") and op["bytes"] == "utf-8":
                data = b"\xef\xbb\xbf" + data
        clock = ticks.TickClock(budget(n))
        stage = "parse"
        try:
            with clock:
                parser = cu.CSSParser(fetcher=net.fetch, **opts)
                if entry == "style":
                    obj = parser.parseStyle(data)
                elif entry == "file":
                    self.tmp = tempfile.mkdtemp(prefix="simfs-c01-")
                    path = os.path.join(self.tmp, "root.css")
                    with open(path, "wb") as f:
                        f.write(data if isinstance(data, bytes) else data.encode("utf-8"))
                    obj = parser.parseFile(path, href="http://h/root.css")
                elif entry == "url":
                    net.docs = dict(docs)
                    net.docs["http://h/root.css"] = {"text": root, "enc": op.get("bytes"), "http": None}
                    if op.get("bytes") == "utf-8" and op.get("bom"):
                        net.docs["http://h/root.css"] = {"raw_hex": data.hex(), "enc": "x", "http": None}
                    obj = parser.parseUrl("http://h/root.css")
                elif entry == "global":
                    # module-level entry point: default fetcher -> urllib.request.urlopen (simulated)
                    net.install_urlopen()
                    try:
                        obj = cu.parseString(data, href="http://h/root.css")
                    finally:
                        net.uninstall_urlopen()
                else:
                    obj = parser.parseString(data, href="http://h/root.css")
                want = cu.css.CSSStyleDeclaration if entry == "style" else cu.css.CSSStyleSheet
                if not isinstance(obj, want):
                    raise Viol("returns_dom", f"{entry}:returned-{type(obj).__name__}", f"{entry} returned {obj!r} for {root!r}")
                if cu.log.raiseExceptions is not True:
                    raise Viol("returns_dom", "mode-not-restored", "error mode changed by the parse")
                parse_ticks = clock.ticks
                stage = "serialise(raise mode)"
                t1 = obj.cssText
                stage = "serialise(log mode)"
                cu.log.raiseExceptions = False
                t2 = obj.cssText
                cu.log.raiseExceptions = True
                stage = "reparse"
                if entry == "style":
                    obj2 = cu.CSSParser(**opts).parseStyle(t2)
                else:
                    obj2 = cu.CSSParser(fetcher=net.fetch, **opts).parseString(t2, href="http://h/root.css")
                stage = "serialise again"
                obj2.cssText
        except Viol:
            raise
        except ticks.TickBudgetExceeded:
            raise Viol("time_bounded", f"{stage.split('(')[0]}:tick-budget", f"{stage}: more than {budget(n)} ticks for {n} characters delivered; root={root[:300]!r} docs={list(docs)}")
        except RecursionError as e:
            # (no innermost function in the signature: where the stack runs out depends on the depth at entry)
            raise Viol("never_raises", f"{stage.split('(')[0]}:RecursionError", f"{stage} raised RecursionError; root={root[:300]!r} docs={list(docs)}")
        except Exception as e:
            raise Viol("never_raises", f"{stage.split('(')[0]}:{lib.ename(e)}@{lib.innermost_repo_function(e, env.REPO)}", f"{stage} raised {e!r}; entry={entry} options={opts} root={root[:400]!r} docs={ {k: str(v.get('text') or v.get('raw_hex'))[:80] for k, v in docs.items()} }")
        finally:
            cu.log.raiseExceptions = True
        self.stats["oracle"] += 4
        self.stats["accepted"] += 1
        self.stats["ticks"] += clock.ticks
        # head-room statistics: share of the tick budget this run used, in deciles of a percent scale
        used = 100.0 * clock.ticks / budget(n)
        self.stats["budget_used_pct:" + ("<1" if used < 1 else "<5" if used < 5 else "<20" if used < 20 else "<50" if used < 50 else ">=50")] += 1
        for u, _ in net.log:
            d = docs.get(u)
            if d and d.get("raw_hex"):
                self.stats["probe:undecodable_import"] += 1
            if d and d.get("cut") is not None:
                self.stats["probe:torn_import"] += 1
        # fetch bound: a cycle must terminate; every fetch is one traversal of an @import edge
        edges = sum((d.get("text") or "").count("@import") for d in docs.values()) + root.count("@import") + t2.count(b"@import" if isinstance(t2, bytes) else "@import")
        if len(net.log) > 4 * (edges + 1) * (len(docs) + 1) + 8:
            raise Viol("fetch_bounded", "fetch-count", f"{len(net.log)} fetches for {edges} @import edges over {len(docs)} documents")
        if any(f == "NOT_FOUND" or f == "EMPTY" for _, f in net.log):
            self.stats["probe:fetch_none"] += 1
        seen = [u for u, _ in net.log]
        if len(seen) != len(set(seen)) and docs:
            self.stats["probe:cycle_hit"] += 1
        if op.get("depth", 0) >= 50:
            self.stats["probe:depth_ge_50"] += 1
        self.stats[f"op:{entry}:ok"] += 1
        self._sig = (entry, op.get("kind"), min(parse_ticks // 2000, 20), len(obj.cssRules) if hasattr(obj, "cssRules") else obj.length)
        return f"ok:{clock.ticks}"

    def finish(self):
        pass

    def state(self):
        return getattr(self, "_sig", None)


def _graph(r, cyc):
    """import graph under http://h/ ; returns (root imports text, docs)"""
    names = [f"d{i}.css" for i in range(r.choice([1, 2, 3, 5]))]
    docs = {}
    for i, n in enumerate(names):
        imps = []
        for _ in range(r.choice([0, 1, 1, 2])):
            if cyc and r.random() < 0.5:
                t = r.choice(names + ["root.css", n])  # back edge / self import / root
            else:
                later = names[i + 1 :]
                if not later:
                    continue
                t = r.choice(later)
            imps.append(f'@import "{t}"{r.choice(["", " print", " all"])};')
        body = G.sheet(r, n=r.choice([0, 1, 2]), bad=0.3, ordered=False) if r.random() < 0.7 else G.soup(r, r.choice([5, 20, 60]))
        d = {"text": "".join(imps) + body, "enc": r.choice([None, "utf-8", "utf-8", "iso-8859-1", "utf-16"]), "http": r.choice([None, None, "utf-8", "ascii", "koi8-r"]), "fault": r.choice([None] * 6 + ["NOT_FOUND", "EMPTY"])}
        k = r.random()
        if k < 0.15:
            d["cut"] = r.randrange(0, max(1, len(d["text"])))
            d["_probe"] = "torn"
        elif k < 0.25:
            d.update(raw_hex=r.choice(["fffe61", "ff", "c328", "efbbbfff", "40636861727365742022"]), enc="x")
            d["_probe"] = "undecodable"
        docs["http://h/" + n] = d
    root_imps = "".join(f'@import "{r.choice(names + (["root.css"] if cyc else []))}";' for _ in range(r.choice([1, 1, 2])))
    return root_imps, docs


NEST = ["f(", "calc(", "rgb(", "not(", "(", "[", "{", "url(", "var(", "var(v,", "var(v, ", "a{", "@media print{", ":not(", "@page{", "\"", "/*"]
# 'repeat' documents: one token many times inside a context that may never be closed (regular-expression and
# production loops whose cost depends on how often a token repeats)
REP_PREFIX = ["a{list-style:", "a{page:", "a{counter-reset:", "a{cursor:", "a{quotes:", "a{text-shadow:", "a{border:", "a{src:", "a{font-family:", "a{voice-family:", "a{font:12px ", "a{content:", "a{margin:", "a{background:", "a{transition:", "@font-face{src:", "@media ", "@import 'x' ", "@page :", "", "/*", "url(", "a{x:url(", "\"", "'", "a{x:", "@x ", "a[", "@media ", "a{x:'", "@import url(", "a:", "@charset \"", "<!--", "a{x:f(", "@page :", "@namespace "]
REP_TOKEN = ["inherit ", "normal ", "none ", "male,", "0 ", "center ", "a\\1", "\\1", "url(\"a b\") ", "#1e3\\a", "é", "é ", "a ", "a, ", "1 ", "1px ", "\"a\" ", "\"a\", ", "url(x) ", "f(1) ", "a b, ", "ſ", "(color) and ", "tv, ", "*", "\\z", "\\)", "\\41 ", "\\41", "\\\n", "\\", "a", " ", "\n", "-", "+", ".", "1", "1.", "/", "/*", "*/", "(", ")", "'", "\"", ",", ";", ":", "!", "#", "@", "|", "u+", "\\2d", "é", "\t", "\x0c", "<!--", "-->", "* ", "*/*", "\\a\n"]
CHARSET_NAMES = ["rot13", "hex", "idna", "undefined", "css", "utf-7", "punycode", "unicode_escape", "raw_unicode_escape", "base64", "zlib", "bz2", "uu", "quopri", "utf-8-sig", "utf-16", "utf-32", "utf-16-be", "ascii", "latin-1", "cp1252", "koi8-r", "big5", "shift_jis", "iso2022_jp", "hz", "x-unknown", "utf-8", "UTF-8", "mbcs", "oem"]
REP_SUFFIX = ["", "", " x", ")", "}", "*/", "\"", ";", "{}"]


def gen_op(r, w, i):
    if i >= 1:
        return None
    kind = w.cfg["kind"]
    op = {"op": "parse", "kind": kind, "comments": r.random() < 0.7, "validate": r.random() < 0.7}
    op["entry"] = r.choice(["string", "string", "global", "url", "file", "style" if kind in ("soup", "style", "depth", "repeat") else "string"])
    docs = {}
    if kind == "soup":
        root = G.soup(r, r.choice([1, 2, 3, 5, 8, 12, 20, 40, 80, 200]))
    elif kind == "damaged":
        root = G.sheet(r, bad=r.choice([0.3, 0.7, 1.0]), ordered=r.random() < 0.5)
    elif kind == "torn":
        root = G.torn(r, G.sheet(r, bad=0.2)) + r.choice(["", "", "@charset ", "var(", "rgb(", "<!--@x", "url(", "\\", "@", "!"])
    elif kind == "style":
        root = G.decl_block(r, bad=0.5) if r.random() < 0.5 else G.soup(r, r.choice([3, 10, 30]))
    elif kind == "charset":
        # a sheet given as text that declares an encoding: any name Python knows (text encodings or not), also as import
        enc = r.choice(CHARSET_NAMES)
        root = f'@charset "{enc}";' + r.choice(["", "\n"]) + G.sheet(r, n=r.choice([0, 1, 2]), bad=0.2) + r.choice(["", " é{}", " \u4e2d{}"])
        if r.random() < 0.4:
            docs = {"http://h/c.css": {"raw_hex": (f'@charset "{r.choice(CHARSET_NAMES)}"; a{{top:0}}').encode("ascii").hex(), "enc": "x", "http": None, "fault": None}}
            root = root.replace(";", '; @import "c.css";', 1)
        op["entry"] = r.choice(["string", "string", "global"])
    elif kind == "repeat":
        d = r.choice([3, 8, 16, 24, 32, 48, 64, 100, 200])
        root = r.choice(REP_PREFIX) + r.choice(REP_TOKEN) * d + r.choice(REP_SUFFIX)
        op["depth"] = d
    elif kind == "depth":
        d = r.choice([5, 10, 20, 30, 50, 70, 90, 100, 200, 400])
        opener = r.choice(NEST)
        if opener in ("f(", "calc(", "(", "[", ":not(", "not(", "var(v,", "@media print{", "rgb(") and r.random() < 0.25:
            d = r.choice([700, 1000, 1500])  # deeper than the interpreter's recursion limit allows
        closer = {"var(v,": ")", "var(v, ": ")", "f(": ")", "calc(": ")", "rgb(": ")", "not(": ")", "(": ")", "[": "]", "{": "}", "url(": ")", "var(": ")", "a{": "}", "@media print{": "}", ":not(": ")", "@page{": "}", "\"": "\"", "/*": "*/"}[opener]
        inner = r.choice(["1", "a", "x:y", "", "red", "a{left:0}", "b{top:0} c{left:1px}"])  # (the last two: valid content of nested rule blocks)
        closed = r.choice([d, d, d // 2, 0])
        fmt = r.choice(["a{x:%s}", "%s", "a{%s}", "@media all{%s}", "a %s {}", "@x %s;"])
        if opener == "@media print{" and r.random() < 0.6:
            # well-formed nesting of rule blocks with real content at the bottom (and deep, but inside the recursion limit)
            inner, closed, fmt = r.choice(["a{left:0}", "b{top:0} c{left:1px}", "@page{margin:0}"]), d, r.choice(["%s", "%s", "@media all{%s}", "x{top:0} %s y{top:1px}"])
            d = closed = r.choice([8, 12, 16, 20, 24, 32, 48])
        body = opener * d + inner + closer * closed
        root = fmt % body
        op["depth"] = d
    else:
        cyc = r.random() < 0.5
        imps, docs = _graph(r, cyc)
        root = imps + G.sheet(r, n=r.choice([0, 1, 2]), bad=0.2)
        op["entry"] = r.choice(["string", "url", "global" if False else "string", "file"])
        for d in docs.values():
            p = d.pop("_probe", None)
            if p:
                w.stats[f"probe:{p}_import"] += 0  # counted when fetched (fault:TORN) / below
    if op["entry"] == "file":
        # a generated '@charset "ascii"' would make the file's bytes undecodable (outside the statement)
        root = root.replace("@charset", "@charsex")
    op["root"] = root
    op["docs"] = docs
    if kind != "charset" and r.random() < 0.35 and op["entry"] in ("string", "global", "file", "url"):
        # byte input that is decodable under the encoding that applies: generated @charset rules are defused,
        # then a truthful one is declared where the encoding cannot be sniffed otherwise
        op["bytes"] = r.choice(["utf-8", "utf-8", "utf-16", "iso-8859-1"])
        op["bom"] = r.random() < 0.4
        op["root"] = op["root"].replace("@charset", "@charsex")
        if op["bytes"] in ("utf-16", "utf-8") and r.random() < 0.4:
            # first character after the byte order mark: code points whose UTF-16 bytes look like other signatures
            op["root"] = r.choice(["\u0100", "\u4e00", "\u3000", "\uff00", "\u0400", "\ufeff", "\ufffe", "\u00ff", "\u00fe"]) + op["root"]
        if op["bytes"] == "iso-8859-1":
            op["root"] = '@charset "iso-8859-1";' + "".join(c if ord(c) < 256 else "?" for c in op["root"])
        elif op["bytes"] == "utf-8" and r.random() < 0.3:
            op["root"] = '@charset "utf-8";' + op["root"]
    return op


def regen_ops(cfg, rs):
    class W:
        pass

    w = W()
    w.cfg = cfg
    w.stats = collections.Counter()
    return [gen_op(rs("ops"), w, 0)]


def simplify(op):
    """shrink the root text: drop chunks (halves ... single characters), then documents"""
    root = op.get("root", "")
    n = len(root)
    size = n // 2
    while size >= 1:
        for i in range(0, n, size):
            t = root[:i] + root[i + size :]
            if t != root:
                o = dict(op)
                o["root"] = t
                yield o
        size //= 2
    for k in list(op.get("docs", {})):
        o = dict(op)
        o["docs"] = {a: b for a, b in op["docs"].items() if a != k}
        yield o
    for k in ("bytes", "bom"):
        if op.get(k):
            o = dict(op)
            o.pop(k)
            yield o
