"""Seeded CSS content generators (text level).  Everything draws from the rng it is given."""

PROPS = [
    ("color", ["red", "#fff", "#a1b2c3", "rgb(1, 2, 3)", "rgba(0, 0, 0, 0.5)", "inherit", "hsl(120, 50%, 50%)"]),
    ("background", ["url(img/x.png) no-repeat", "red", "url(\"a b.png\")", "#000 url(x.gif) repeat-x 0 0"]),
    ("margin", ["0", "1px 2px", "1em auto", "-1px 0 0.5em 10%", "auto"]),
    ("width", ["100%", "10px", "auto", "calc(100% - 10px)", "0"]),
    ("font-family", ["serif", "\"Times New Roman\", serif", "a, b, c"]),
    ("font", ["12px/1.5 serif", "bold 1em sans-serif"]),
    ("content", ["\"x\"", "'a\\'b'", "\"\\201C\"", "counter(c)", "attr(title)", "none"]),
    ("top", ["1px", "-2em", "50%", "0", "auto"]),
    ("display", ["block", "none", "inline", "INLINE-BLOCK"]),
    ("border", ["1px solid red", "none", "0"]),
    ("z-index", ["1", "-1", "auto"]),
    ("opacity", ["0.5", ".5", "1"]),
    ("x-unknown", ["1", "a b", "f(1, g(2))", "\"s\""]),
    ("-moz-foo", ["bar"]),
    ("left", ["1px"]),
]
TYPES = ["a", "b", "div", "p", "span", "h1", "li", "x"]
MEDIA = ["all", "aural", "braille", "embossed", "handheld", "print", "projection", "screen", "tty", "tv"]
FEATURES = [("min-width", "10px"), ("max-width", "100em"), ("color", None), ("min-color", "2"), ("orientation", "portrait"), ("max-height", "3cm"), ("monochrome", None), ("min-resolution", "96dpi")]


def ident(r):
    return r.choice(["a", "b", "c", "foo", "bar", "x1", "a-b", "_u", "-v", "né"])


def declaration(r, valid=True):
    name, vals = r.choice(PROPS)
    v = r.choice(vals)
    prio = r.choice(["", "", "", " !important", " ! IMPORTANT"])
    if r.random() < 0.1:
        name = name.upper()
    return f"{name}: {v}{prio}"


def bad_declaration(r):
    return r.choice(
        [
            "color: ",
            "color red",
            ": red",
            "color: red blue !",
            "color: 1;2",
            "top: (",
            "x: }",
            "color: red !importan",
            "*color: red",
            "$x: 1",
            "color: rgb(1,",
            "a: b: c",
            "color: \"unterminated",
            "width: 1px !important !important",
            "@x: y",
            "1a: b",
        ]
    )


def decl_block(r, n=None, bad=0.0, comments=0.15):
    n = r.randrange(0, 5) if n is None else n
    parts = []
    for _ in range(n):
        if r.random() < bad:
            parts.append(bad_declaration(r))
        else:
            parts.append(declaration(r))
        if r.random() < comments:
            parts.append(f"/*{ident(r)}*/")
    sep = r.choice(["; ", ";", ";\n  "])
    out = ""
    for p in parts:
        out += p + ("" if p.startswith("/*") else sep)
    return out


def simple_selector(r):
    s = r.choice(TYPES + ["*", ""])
    for _ in range(r.choice([0, 0, 1, 1, 2])):
        k = r.random()
        if k < 0.3:
            s += "." + ident(r)
        elif k < 0.45:
            s += "#" + r.choice(["i", "id1", "x"])
        elif k < 0.6:
            s += "[" + ident(r) + r.choice(["", "=v", "~=\"v\"", "|='v'", "^=v", "$=v", "*=v"]) + "]"
        elif k < 0.8:
            s += ":" + r.choice(["hover", "first-child", "nth-child(2n+1)", "lang(en)", "not(.k)", "not(#i)", "link"])
        else:
            s += r.choice(["::after", ":before", "::first-line"])
    return s or "*"


def selector(r):
    s = simple_selector(r)
    for _ in range(r.choice([0, 0, 1, 2])):
        s += r.choice([" ", " > ", " + ", " ~ ", ">"]) + simple_selector(r)
    return s


def selector_list(r, bad=0.0):
    n = r.choice([1, 1, 2, 3])
    parts = [selector(r) for _ in range(n)]
    if r.random() < bad:
        parts[r.randrange(n)] = r.choice(["a,,b", ">", "a >", "1a", "a[", "a:", ".", "#", "a b {", "a::", "p|a", "[x=]", ":not(", "a..b"])
    return r.choice([", ", ","]).join(parts)


def style_rule(r, bad=0.0):
    return f"{selector_list(r, bad)} {{ {decl_block(r, bad=bad)} }}"


def media_query(r):
    k = r.random()
    if k < 0.5:
        return r.choice(MEDIA)
    parts = []
    if k < 0.85:
        parts.append(r.choice(["", "", "not ", "only "]) + r.choice(MEDIA))
    for _ in range(r.choice([1, 1, 2, 3]) if parts == [] else r.choice([0, 1, 2])):
        f, v = r.choice(FEATURES)
        parts.append(f"({f}: {v})" if v else f"({f})")
    return " and ".join(parts)


def media_list(r, bad=0.0):
    n = r.choice([1, 1, 2, 3])
    qs = [media_query(r) for _ in range(n)]
    if r.random() < bad:
        qs[r.randrange(n)] = r.choice(["print and", "screen and (x", "3d", "(", "and", "print screen", "not", "tv and and (color)", "x-unknown"])
    return ", ".join(qs)


def media_rule(r, bad=0.0, depth=0):
    inner = " ".join(rule(r, r.choice(["style", "style", "comment", "page", "unknown"] + (["media"] if depth < 1 else [])), bad, depth + 1) for _ in range(r.choice([0, 1, 2, 3])))
    return f"@media {media_list(r, bad)} {{ {inner} }}"


def page_rule(r, bad=0.0):
    sel = r.choice(["", ":first", ":left", ":right", "named", "named:first"])
    margin = ""
    if r.random() < 0.4:
        # one to three margin boxes; the same box may be named more than once (the parser merges those)
        for _ in range(r.choice([1, 1, 2, 3])):
            margin += f" @{r.choice(['top-left', 'top-left', 'bottom-center', 'right-middle'])} {{ {decl_block(r, n=r.choice([1, 1, 2]))} }}"
    return f"@page {sel} {{ {decl_block(r, bad=bad)}{margin} }}"


def import_rule(r, hrefs=("a.css", "b.css", "sub/c.css", "../d.css", "http://other/e.css")):
    h = r.choice(list(hrefs))
    form = r.choice(['url({})', '"{}"', "url('{}')"]).format(h)
    media = r.choice(["", "", " print", " screen, tv", " all"])
    return f"@import {form}{media};"


def namespace_rule(r):
    return r.choice(['@namespace "u0";', '@namespace p "u1";', "@namespace q url(u2);", '@namespace p "u3";', '@namespace r "u1";'])


def rule(r, kind, bad=0.0, depth=0):
    if kind == "style":
        return style_rule(r, bad)
    if kind == "media":
        return media_rule(r, bad, depth)
    if kind == "page":
        return page_rule(r, bad)
    if kind == "import":
        return import_rule(r)
    if kind == "namespace":
        return namespace_rule(r)
    if kind == "charset":
        return f'@charset "{r.choice(["utf-8", "ascii", "iso-8859-1"])}";'
    if kind == "fontface":
        return f"@font-face {{ font-family: {ident(r)}; src: url(f.woff) }}"
    if kind == "comment":
        return f"/* {ident(r)} */"
    if kind == "variables":
        return f"@variables {{ {ident(r)}: red; c2: 1px }}"
    if kind == "unknown":
        return r.choice(["@foo bar;", "@x { y: z }", "@three-dee { a { b: c } }", "@-moz-doc url(x) { a { b: c } }"])
    raise ValueError(kind)


KINDS = ["charset", "import", "namespace", "variables", "media", "page", "fontface", "style", "comment", "unknown"]


def sheet(r, n=None, bad=0.0, ordered=True):
    """a sheet text; ordered=True keeps @charset/@import/@namespace in their legal places"""
    n = r.randrange(0, 7) if n is None else n
    head = []
    if ordered:
        if r.random() < 0.2:
            head.append(rule(r, "charset"))
        for _ in range(r.choice([0, 0, 1, 2])):
            head.append(rule(r, "import"))
        for _ in range(r.choice([0, 0, 1, 2])):
            head.append(rule(r, "namespace"))
    body = [rule(r, r.choice(["style", "style", "style", "media", "page", "fontface", "comment", "unknown"] + ([] if ordered else ["charset", "import", "namespace"])), bad) for _ in range(n)]
    return r.choice(["\n", " ", ""]).join(head + body)


SOUP = [
    "a", "b", "{", "}", "(", ")", "[", "]", ";", ":", ",", " ", "\n", "@", "@media", "@import", "@charset ", "@page", "@namespace", "@font-face", "@x",
    "\"", "'", "\"s\"", "url(", "url(x)", "f(", "calc(", "rgb(", "var(", "not(", ":not(", "!", "!important", "#", "#fff", ".", "*", "|", ">", "+", "~", "=",
    "/*", "*/", "<!--", "-->", "\\", "\\41 ", "\\2d ", "\\2d", "\\31 ", "\\0 ", "\\a ", "\\7b ", "\\20 ", "\\3b", "\\10ffff ", "\\110000 ", "\\d800 ", "1", "1px", "50%", "-", "--", "u+0-7f", "é", "\u4e2d", "\U0001f600", "\x01", "\t", "\x0c", "\\\n", "/", "$", "&", "^=",
    "\"}\"", "\"{\"", "'}'", "url(\"}\")", "\";\"", "\\z", "\\)", "\\\"", "**", "var(v,", "var(v, var(w, ", "@variables{v:1}", "@x \"}\";",
    "\\7d ", "1\\a x", "#1e3\\a", "#abc\\a ", "@CHARSET \"a\";", "@charset\"a\";", "@variables { /*c*/ a: 1; a: 2 }", "@import \"http://[x\";", "@import url(//[);", "9" * 400 + ".5px", "9" * 5000, "-" + "9" * 330 + "em", "1e999", "0." + "0" * 400 + "1",
    "@charset \"rot13\";", "@charset \"idna\";", "@charset \"css\";", "font-family:", "voice-family:", "font:", "content:", "é é ", "a a a ", "\"a\" \"b\" ",
]


def soup(r, n):
    return "".join(r.choice(SOUP) for _ in range(n))


def torn(r, text):
    if not text:
        return text
    return text[: r.randrange(0, len(text))]
