"""Deterministic tick clock: one tick = one entry into a Python function of the tree under test
(sys.monitoring PY_START, callbacks disabled for every code object outside VERIF_REPO).  Identical
across runs, hash seeds and machines, so a time bound becomes a replayable invariant."""
import sys

from .env import REPO

TOOL = 4


class TickBudgetExceeded(BaseException):
    """BaseException: the library's `except Exception` handlers cannot swallow it."""


class TickClock:
    def __init__(self, budget=None):
        self.ticks = 0
        self.budget = budget
        self._prefix = REPO + "/"

    def _cb(self, code, offset):
        if not code.co_filename.startswith(self._prefix):
            return sys.monitoring.DISABLE
        self.ticks += 1
        if self.budget is not None and self.ticks > self.budget:
            self.budget = None  # raise once
            raise TickBudgetExceeded(self.ticks)

    def __enter__(self):
        m = sys.monitoring
        m.use_tool_id(TOOL, "simkit-ticks")
        m.register_callback(TOOL, m.events.PY_START, self._cb)
        m.set_events(TOOL, m.events.PY_START)
        return self

    def __exit__(self, *a):
        m = sys.monitoring
        m.set_events(TOOL, 0)
        m.register_callback(TOOL, m.events.PY_START, None)
        m.free_tool_id(TOOL)
        return False
