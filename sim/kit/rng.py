"""One integer decides everything: every stream is derived from VERIF_SEED by name.

String seeding of random.Random goes through SHA-512, so streams are independent of
PYTHONHASHSEED, of the worker count and of the order in which workers pick up runs.
"""
import random


def stream(seed, prop, run, name):
    return random.Random(f"{seed}/{prop}/{run}/{name}")


class Streams:
    """Named, lazily created streams of one run."""

    def __init__(self, seed, prop, run):
        self.key = (seed, prop, run)
        self._s = {}

    def __call__(self, name):
        r = self._s.get(name)
        if r is None:
            r = self._s[name] = stream(*self.key, name)
        return r
