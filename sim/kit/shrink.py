"""ddmin over the recorded operation list, then per-op simplification; a candidate is kept only if
the same violation class (invariant id + signature) still fails. Every candidate runs in a forked
pristine child."""
from .runner import run_isolated, same_class


def shrink(prop, seed, run, tier, cfg, ops, inv, sig, budget=300):
    used = [0]

    def fails(cand):
        if used[0] >= budget:
            return False
        used[0] += 1
        return same_class(run_isolated(prop, seed, run, tier, cfg=cfg, ops=cand), inv, sig)

    ops = list(ops)
    # ddmin: remove chunks of decreasing size
    n = 2
    while len(ops) >= 2 and used[0] < budget:
        size = max(1, len(ops) // n)
        removed = False
        i = 0
        while i < len(ops):
            cand = ops[:i] + ops[i + size :]
            if cand and fails(cand):
                ops = cand
                removed = True
            else:
                i += size
        if not removed:
            if size == 1:
                break
            n = min(len(ops), n * 2)
        else:
            n = max(2, n - 1)
    # per-op simplification ladder
    simp = getattr(prop, "simplify", None)
    if simp:
        progress = True
        while progress and used[0] < budget:
            progress = False
            for i, op in enumerate(ops):
                for s in simp(op):
                    if s == op:
                        continue
                    cand = ops[:i] + [s] + ops[i + 1 :]
                    if fails(cand):
                        ops = cand
                        progress = True
                        break
    return ops, used[0]
