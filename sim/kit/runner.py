"""simkit runner: one seeded run = config + operation/fault sequence, executed as a pure function
of the recorded list; one pristine forked interpreter per run; 16-way fan-out; no PRNG draw and no
clock read outside the named streams (wall time is measured only around whole batches).

Property modules (sim/props/cNN.py) provide:

    ID              "C10"
    FORK            True -> every run executes in a forked child of a pristine parent
    RUNS            {"quick": n, "thorough": n}
    config(rs, run, tier) -> JSON-able swarm configuration (rs = named streams of this run)
    World(cfg)      object with .stats (Counter) ; .step(op) -> outcome string (may raise Viol)
                    .finish() (may raise Viol) ; .state() -> hashable abstract state
    gen_op(rng, world, i) -> JSON-able op record, or None to end the run
    optional: simplify(op) -> iterable of simpler op records (shrinker ladder)
              EXTRA_RUNS(tier) -> list of (cfg, ops) deterministic sweeps executed in addition
"""
import collections
import faulthandler
import hashlib
import json
import os
import sys
import time
import traceback

from . import rng as _rng
from .env import HarnessError

WATCHDOG_S = int(os.environ.get("VERIF_WATCHDOG_S", "120"))


class Viol(Exception):
    """A property violation observed by an oracle. inv = invariant id, sig = stable class of what failed."""

    def __init__(self, inv, sig, detail=""):
        super().__init__(f"{inv} [{sig}] {detail}")
        self.inv, self.sig, self.detail = inv, sig, str(detail)[:2000]


def _h64(x):
    return int.from_bytes(hashlib.blake2b(repr(x).encode("utf-8", "backslashreplace"), digest_size=8).digest(), "big")


def execute(prop, cfg, ops=None, streams=None, max_ops=None):
    """Run one simulation in this process. With ops given it is a pure function of (cfg, ops)."""
    h = hashlib.sha256()
    rec, states, viol = [], set(), None
    try:
        world = prop.World(cfg)
    except Viol as v:
        # the initial world (e.g. the parse under test) already violates an invariant
        viol = {"inv": v.inv, "sig": v.sig, "detail": v.detail, "step": -1}
        h.update(("VIOL" + v.inv + "|" + v.sig).encode())
        return {"cfg": cfg, "ops": [], "violation": viol, "stats": {}, "states": [], "digest": h.hexdigest()[:24], "steps": 0, "nontrivial": False, "ticks": 0}
    n = len(ops) if ops is not None else (max_ops if max_ops is not None else cfg.get("n_ops", 0))
    step = -1
    try:
        for step in range(n):
            if ops is not None:
                op = ops[step]
            else:
                op = prop.gen_op(streams("ops"), world, step)
                if op is None:
                    break
            rec.append(op)
            outcome = world.step(op)
            h.update(json.dumps([op, outcome], sort_keys=True, ensure_ascii=True, default=repr).encode())
            try:
                states.add(_h64(world.state()))
            except Viol:
                raise
        else:
            step = n
        world.finish()
    except Viol as v:
        viol = {"inv": v.inv, "sig": v.sig, "detail": v.detail, "step": min(step, len(rec) - 1) if rec else -1}
        h.update(("VIOL" + v.inv + "|" + v.sig).encode())
    finally:
        c = getattr(world, "close", None)
        if c:
            c()
    soft = getattr(world, "soft", None)
    if viol is None and soft:
        # a violation class the world chose to record without stopping the run (used for frequent
        # recorded known findings, so that the rest of the run is still explored)
        viol = dict(soft[0], step=len(rec) - 1)
        h.update(("SOFT" + viol["inv"] + "|" + viol["sig"]).encode())
    st = world.stats
    return {
        "cfg": cfg,
        "ops": rec,
        "violation": viol,
        "stats": dict(st),
        "states": sorted(states),
        "digest": h.hexdigest()[:24],
        "steps": len(rec),
        "nontrivial": bool(st.get("accepted", 0) > 0 and st.get("oracle", 0) > 0),
        "ticks": int(st.get("ticks", 0)),
    }


HANG_LIMIT = 6  # hung runs after which a batch stops scheduling further chunks


def _child(prop, seed, run, tier, cfg, ops, wfd):
    try:
        faulthandler.dump_traceback_later(WATCHDOG_S, exit=True)
        if cfg is None:
            rs = _rng.Streams(seed, prop.ID, run)
            cfg = prop.config(rs, run, tier)
            res = execute(prop, cfg, None, rs)
        else:
            res = execute(prop, cfg, ops, _rng.Streams(seed, prop.ID, run))
        out = json.dumps(res, ensure_ascii=True, default=repr).encode()
    except BaseException:
        out = json.dumps({"error": traceback.format_exc()[-4000:]}).encode()
    try:
        with os.fdopen(wfd, "wb") as w:
            w.write(out)
    finally:
        os._exit(0)


def run_isolated(prop, seed, run, tier, cfg=None, ops=None):
    """Execute one run in a forked child (pristine copy of this interpreter)."""
    if not getattr(prop, "FORK", True):
        try:
            if cfg is None:
                rs = _rng.Streams(seed, prop.ID, run)
                cfg = prop.config(rs, run, tier)
                return execute(prop, cfg, None, rs)
            return execute(prop, cfg, ops, _rng.Streams(seed, prop.ID, run))
        except Exception:
            return {"error": traceback.format_exc()[-4000:]}
    rfd, wfd = os.pipe()
    sys.stdout.flush()
    sys.stderr.flush()
    pid = os.fork()
    if pid == 0:
        os.close(rfd)
        _child(prop, seed, run, tier, cfg, ops, wfd)
    os.close(wfd)
    chunks = []
    with os.fdopen(rfd, "rb") as r:
        while True:
            b = r.read(1 << 16)
            if not b:
                break
            chunks.append(b)
    _, status = os.waitpid(pid, 0)
    data = b"".join(chunks)
    if not data:
        return {"error": f"child died without result (status {status}); watchdog {WATCHDOG_S}s or crash", "hang": True}
    try:
        return json.loads(data)
    except ValueError:
        return {"error": "unparsable child output"}


# ---------------------------------------------------------------------------------------------
# batches


def _chunk_worker(args):
    prop_name, seed, tier, runs = args
    from .. import props as _p  # noqa

    prop = load_prop(prop_name)
    agg = new_agg()
    hangs = 0
    for i, run in enumerate(runs):
        res = run_isolated(prop, seed, run, tier)
        merge_run(agg, run, res)
        if res.get("hang"):
            hangs += 1
            if hangs >= 2:
                # a tree on which runs hang: every further hang costs a whole watchdog period, and the ones seen
                # are reported - the rest of this chunk is left out (counted, never silently)
                agg["stats"]["runs_skipped_after_hangs"] += len(runs) - i - 1
                break
    agg["states"] = sorted(agg["states"])
    agg["digests_nt"] = sorted(agg["digests_nt"])
    return agg


def new_agg():
    return {
        "runs": 0,
        "steps": 0,
        "ticks": 0,
        "stats": collections.Counter(),
        "states": set(),
        "digests_nt": set(),
        "run_digest": {},
        "violations": [],
        "errors": [],
        "samples": [],
    }


def merge_run(agg, run, res):
    agg["runs"] += 1
    if "error" in res:
        agg["errors"].append({"run": run, "error": res["error"], "hang": res.get("hang", False)})
        return
    agg["steps"] += res["steps"]
    agg["ticks"] += res.get("ticks", 0)
    agg["stats"].update(res["stats"])
    agg["states"].update(res["states"])
    if run < 64 or run % 53 == 0:
        agg["run_digest"][run] = res["digest"]
    if res["nontrivial"]:
        agg["digests_nt"].add(int(res["digest"][:16], 16))
    if res["violation"]:
        if len(agg["violations"]) < 400:
            agg["violations"].append({"run": run, "cfg": res["cfg"], "ops": res["ops"], "violation": res["violation"]})
        else:
            agg["stats"]["violations_not_kept"] += 1
    elif len(agg["samples"]) < 2 and res["steps"] > 0 and res["nontrivial"]:
        agg["samples"].append({"run": run, "cfg": res["cfg"], "ops": res["ops"][:12], "steps": res["steps"]})


def merge_agg(a, b):
    a["runs"] += b["runs"]
    a["steps"] += b["steps"]
    a["ticks"] += b["ticks"]
    a["stats"].update(b["stats"])
    a["states"].update(b["states"])
    a["digests_nt"].update(b["digests_nt"])
    a["run_digest"].update({int(k): v for k, v in b["run_digest"].items()})
    a["violations"].extend(b["violations"])
    a["errors"].extend(b["errors"])
    if len(a["samples"]) < 4:
        a["samples"].extend(b["samples"][: 4 - len(a["samples"])])


_PROPS = {}


def load_prop(name):
    import importlib

    name = name.lower()
    if name not in _PROPS:
        _PROPS[name] = importlib.import_module(f"sim.props.{name}")
    return _PROPS[name]


def run_batch(prop, seed, tier, runs, jobs=None):
    """Run the given run indices over a fork pool; returns the merged aggregate (order independent)."""
    import concurrent.futures as cf
    import multiprocessing as mp

    runs = list(runs)
    jobs = jobs or int(os.environ.get("VERIF_JOBS", "0")) or min(16, os.cpu_count() or 1)
    agg = new_agg()
    if not runs:
        return agg
    per = max(1, min(200, len(runs) // (jobs * 8) or 1))
    chunks = [runs[i : i + per] for i in range(0, len(runs), per)]
    if jobs == 1 or len(runs) <= 4:
        for c in chunks:
            merge_agg(agg, _chunk_worker((prop.ID, seed, tier, c)))
    else:
        with cf.ProcessPoolExecutor(max_workers=jobs, mp_context=mp.get_context("fork")) as ex:
            futs = [ex.submit(_chunk_worker, (prop.ID, seed, tier, c)) for c in chunks]
            for f in cf.as_completed(futs):
                if f.cancelled():
                    continue
                merge_agg(agg, f.result())
                if sum(1 for e in agg["errors"] if e.get("hang")) >= HANG_LIMIT:
                    n = 0
                    for g in futs:
                        if not g.done() and g.cancel():
                            n += 1
                    if n:
                        agg["stats"]["chunks_cancelled_after_hangs"] += n
    agg["violations"].sort(key=lambda v: v["run"])
    agg["errors"].sort(key=lambda v: v["run"])
    agg["samples"].sort(key=lambda v: v["run"])
    return agg


def same_class(res, inv, sig):
    v = res.get("violation") if isinstance(res, dict) else None
    return bool(v) and v["inv"] == inv and v["sig"] == sig


def now():
    return time.time()
