import json
import os

from .env import VERIF_DIR

_SCHEMA = "/root/.vp/EVIDENCE.schema.json"


def write(prop_id, doc):
    path = os.path.join(VERIF_DIR, "evidence", f"{prop_id}.json")
    os.makedirs(os.path.dirname(path), exist_ok=True)
    validate(doc)
    tmp = path + ".tmp"
    with open(tmp, "w") as f:
        json.dump(doc, f, indent=1, sort_keys=True, ensure_ascii=True, default=repr)
        f.write("\n")
    os.replace(tmp, path)
    return path


def validate(doc):
    # structural checks equivalent to the schema's requirements for level=exploration; the full
    # jsonschema validation is run by `check validate-evidence` (python3-vt has jsonschema).
    for k in ("property_id", "tier", "seed", "level", "coverage", "wall_s"):
        if k not in doc:
            raise ValueError(f"evidence lacks {k}")
    c = doc["coverage"]
    assert doc["tier"] in ("quick", "thorough")
    assert isinstance(doc["seed"], int)
    assert isinstance(c.get("evaluations"), int) and c["evaluations"] >= 1
    assert isinstance(c.get("distinct_nontrivial"), int)
    assert isinstance(c.get("rule"), str)
    assert isinstance(c.get("samples"), list) and len(c["samples"]) >= 1
