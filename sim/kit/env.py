"""Locate the tree under test and import it (always the current working tree)."""
import os
import sys

VERIF_DIR = os.path.dirname(os.path.dirname(os.path.dirname(os.path.abspath(__file__))))
REPO = os.path.realpath(os.environ.get("VERIF_REPO", "/repo"))
GUARD = "CSSUTILS_VERIF"


class HarnessError(Exception):
    """Something is wrong with the machinery or its environment: exit 2, never a pass, never a VIOLATION."""


def import_tree():
    if sys.path[0] != REPO:
        sys.path.insert(0, REPO)
    os.environ[GUARD] = "1"  # no hook in /repo reads it today; reserved (MANIFEST.hooks)
    import cssutils
    import encutils  # noqa: F401

    f = os.path.realpath(cssutils.__file__)
    if not f.startswith(REPO + os.sep):
        raise HarnessError(f"cssutils imported from {f}, expected under {REPO}")
    return cssutils


def tree_fingerprint():
    """Hash of every .py file of the tree under test (goes into replay files / evidence)."""
    import hashlib

    h = hashlib.sha256()
    for top in ("cssutils", "encutils"):
        for d, dirs, files in sorted(os.walk(os.path.join(REPO, top))):
            dirs.sort()
            if "tests" in dirs:
                dirs.remove("tests")
            for fn in sorted(files):
                if fn.endswith(".py"):
                    p = os.path.join(d, fn)
                    h.update(os.path.relpath(p, REPO).encode())
                    with open(p, "rb") as fh:
                        h.update(fh.read())
    return h.hexdigest()[:16]
