"""Small helpers shared by the property worlds."""
import xml.dom


def call(fn, *a, **k):
    """Run a library call. Returns (kind, value): 'ok' result, 'dom' DOMException, 'exc' other exception."""
    try:
        return "ok", fn(*a, **k)
    except xml.dom.DOMException as e:
        return "dom", e
    except RecursionError as e:
        return "exc", e
    except Exception as e:
        return "exc", e


def ename(e):
    return type(e).__name__


def innermost_repo_function(e, repo):
    """function name (not line) of the innermost frame of the traceback that lies in the tree under test"""
    tb = e.__traceback__
    name = "?"
    while tb is not None:
        co = tb.tb_frame.f_code
        if co.co_filename.startswith(repo):
            name = co.co_filename[len(repo) + 1 :].replace(".py", "").replace("/", ".") + ":" + co.co_name
        tb = tb.tb_next
    return name


def global_modes():
    """Library-wide modes a parse call must leave as it found them."""
    import cssutils

    prof = cssutils.profile
    return (
        ("raiseExceptions", cssutils.log.raiseExceptions),
        ("ser_id", id(cssutils.ser)),
        ("prefs_id", id(cssutils.ser.prefs)),
        ("prefs", tuple(sorted((k, repr(v)) for k, v in vars(cssutils.ser.prefs).items()))),
        ("profiles", tuple(prof.profiles)),
        # (the stored value, read without going through the getter: a getter that caches would hide its own effect)
        ("defaultProfiles", repr(getattr(prof, "_defaultProfiles", None))),
        ("knownNames", tuple(sorted(prof.knownNames))),
    )


def diff_modes(a, b):
    return [k for (k, va), (_, vb) in zip(a, b) if va != vb]
