"""Known findings: committed, read-only at run time. An entry matches a violation by invariant id and
a regular expression over the violation signature (the class of what failed), never by seed."""
import json
import os
import re

from .env import VERIF_DIR

PATH = os.path.join(VERIF_DIR, "known_findings.json")


def load(prop_id):
    if not os.path.exists(PATH):
        return []
    with open(PATH) as f:
        data = json.load(f)
    return [e for e in data.get("findings", []) if e.get("property") == prop_id]


def match(entries, viol):
    for e in entries:
        m = e["match"]
        if m.get("inv") and m["inv"] != viol["inv"]:
            continue
        if m.get("sig") and not re.fullmatch(m["sig"], viol["sig"]):
            continue
        return e
    return None
