import sys, os; sys.path.insert(0, os.getcwd())
# C16 case 3: pseudo names are stored "normalised", which strips the backslash of
# simple escapes: 'a:x\.y' is serialised as 'a:x.y' (pseudo-class + class),
# 'a:\:before' as 'a::before' (pseudo-class becomes pseudo-element).
import logging
import cssutils
from cssutils.css import Selector

cssutils.log.setLevel(logging.FATAL)
cssutils.log.raiseExceptions = False

bad = []
for text in ['a:x\\.y', 'a:\\:before', 'a::x\\ y', 'a:x\\#y', 'a:hover\\.c']:
    s = Selector(text)
    if not s.wellformed:
        continue
    st = s.selectorText
    again = Selector(st)
    if again.specificity != s.specificity or not again.wellformed:
        bad.append(
            '%r: expected the same specificity after a round trip; got %r, '
            'serialised %r, reparsed %r (%s)'
            % (text, s.specificity, st, again.specificity,
               'accepted' if again.wellformed else 'REJECTED')
        )
if bad:
    print('\n'.join(bad))
    sys.exit(1)
sys.exit(0)
