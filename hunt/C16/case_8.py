import sys, os; sys.path.insert(0, os.getcwd())
# C16 case 8: after the closing ')' of :not() or of a functional pseudo a type
# selector or universal is accepted again inside the same compound
# (':not(.a)b', 'div:nth-child(2n)span', ':lang(fr)*').
import logging
import cssutils
from cssutils.css import Selector, SelectorList

cssutils.log.setLevel(logging.FATAL)
cssutils.log.raiseExceptions = False

bad = []
for text in [':not(.a)b', 'div:nth-child(2n)span', ':lang(fr)*', 'a:not(.b)|c', '*:not(#i)*']:
    s = Selector(text)
    if s.wellformed:
        bad.append(
            '%r: expected rejection (type selector/universal only at the start of a '
            'compound); accepted as %r with specificity %r'
            % (text, s.selectorText, s.specificity)
        )
sl = SelectorList('x, div:nth-child(2n)span')
if sl.length:
    bad.append(
        "SelectorList('x, div:nth-child(2n)span'): expected the whole list "
        "rejected, got %r" % sl.selectorText
    )
if bad:
    print('\n'.join(bad))
    sys.exit(1)
sys.exit(0)
