import sys, os; sys.path.insert(0, os.getcwd())
# C16 case 12: removing the optional white space around '+' changes the result
# when the left element is 'u' and the right one starts with a hex digit:
# 'u + a' has specificity (0,0,0,2), 'u+a' is tokenised as UNICODE-RANGE and
# rejected. With minified preferences the serialiser itself produces 'u+a'.
import logging
import cssutils
from cssutils.css import Selector

cssutils.log.setLevel(logging.FATAL)
cssutils.log.raiseExceptions = False

bad = []
for spaced, tight in [('u + a', 'u+a'), ('ul u + b.c', 'ul u+b.c'), ('U + abbr', 'U+abbr')]:
    a, b = Selector(spaced), Selector(tight)
    if a.wellformed and (not b.wellformed or a.specificity != b.specificity):
        bad.append(
            '%r has specificity %r; expected the same for %r (only white space '
            'differs); got %s'
            % (spaced, a.specificity, tight,
               'REJECTED' if not b.wellformed else b.specificity)
        )
cssutils.ser.prefs.useMinified()
try:
    s = Selector('u + a')
    st = s.selectorText
    again = Selector(st)
    if s.wellformed and (not again.wellformed or again.specificity != s.specificity):
        bad.append(
            "minified round trip of 'u + a': serialised %r, expected it to reparse "
            "with specificity %r; got %s"
            % (st, s.specificity,
               'REJECTED' if not again.wellformed else again.specificity)
        )
finally:
    cssutils.ser.prefs.useDefaults()
if bad:
    print('\n'.join(bad))
    sys.exit(1)
sys.exit(0)
