import sys, os; sys.path.insert(0, os.getcwd())
# C16 case 7: brackets nest inside an attribute selector ('attrib' is a substring
# of the expected-state 'prefix attribute'), after which IDs, classes, types and
# combinators are accepted inside the brackets and not counted.
import logging
import cssutils
from cssutils.css import Selector, SelectorList

cssutils.log.setLevel(logging.FATAL)
cssutils.log.raiseExceptions = False

bad = []
for text in ['[[a]=b]', '[[a]#d=b]', '[[a].c=b]', '[a>x#i[b]=c]', '[zzz|[a]=b]']:
    s = Selector(text)
    if s.wellformed:
        bad.append(
            '%r: expected rejection; accepted as %r with specificity %r'
            % (text, s.selectorText, s.specificity)
        )
sl = SelectorList('x, [[a]#d=b]')
if sl.length:
    bad.append(
        "SelectorList('x, [[a]#d=b]'): expected the whole list rejected, got %r "
        "(specificities %r: the ID is not even counted)"
        % (sl.selectorText, [s.specificity for s in sl])
    )
if bad:
    print('\n'.join(bad))
    sys.exit(1)
sys.exit(0)
