import sys, os; sys.path.insert(0, os.getcwd())
# C16 case 5: inside :not() any further IDENT is accepted as another type
# selector: ':not(a b)' is accepted (specificity 0,0,0,2), serialised ':not(ab)'
# (specificity 0,0,0,1) and a list containing it is not rejected.
import logging
import cssutils
from cssutils.css import Selector, SelectorList

cssutils.log.setLevel(logging.FATAL)
cssutils.log.raiseExceptions = False

bad = []
for text in [':not(a b)', ':not(.c b)', 'x:not(#i y z)', ':not([q] b)']:
    s = Selector(text)
    if s.wellformed:
        again = Selector(s.selectorText)
        bad.append(
            '%r: expected rejection (one simple selector in :not()); accepted with '
            'specificity %r, serialised %r which reparses with specificity %r'
            % (text, s.specificity, s.selectorText, again.specificity)
        )
sl = SelectorList('x, :not(a b), y')
if sl.length:
    bad.append(
        "SelectorList('x, :not(a b), y'): expected the whole list rejected, got %r"
        % sl.selectorText
    )
if bad:
    print('\n'.join(bad))
    sys.exit(1)
sys.exit(0)
