import sys, os; sys.path.insert(0, os.getcwd())
# C16 case 11: a comment between a namespace prefix and the name consumes the
# saved prefix: 'p|/**/a' is parsed as the un-prefixed 'a' (and an undeclared
# prefix is no longer an error), whereas 'p|a' keeps the namespace.
import logging
import cssutils
from cssutils.css import Selector, SelectorList

cssutils.log.setLevel(logging.FATAL)
cssutils.log.raiseExceptions = False
cssutils.ser.prefs.keepComments = False

bad = []
ns = {'p': 'http://p'}
for plain, commented in [('p|a', 'p|/**/a'), ('[p|a]', '[p|/**/a]'), (':not(p|a)', ':not(p|/**/a)')]:
    a = Selector((plain, ns))
    b = Selector((commented, ns))
    if b.wellformed and a.selectorText != b.selectorText:
        bad.append(
            '%r: expected the same selector as %r (%r) or rejection; got %r'
            % (commented, plain, a.selectorText, b.selectorText)
        )
# undeclared prefix: the member is invalid, the list must be rejected as a whole
if not Selector('zzz|a').wellformed:
    sl = SelectorList('x, zzz|/**/a')
    if sl.length:
        bad.append(
            "SelectorList('x, zzz|/**/a') with undeclared prefix zzz: expected the "
            "whole list rejected like 'x, zzz|a'; got %r" % sl.selectorText
        )
cssutils.ser.prefs.keepComments = True
if bad:
    print('\n'.join(bad))
    sys.exit(1)
sys.exit(0)
