import sys, os; sys.path.insert(0, os.getcwd())
# C16 case 1: ':not(' written with a simple escape (':n\ot(a)') is not recognised
# as negation; its argument is not counted, yet it is serialised as ':not(a)'.
import logging
import cssutils
from cssutils.css import Selector

cssutils.log.setLevel(logging.FATAL)
cssutils.log.raiseExceptions = False

bad = []
for text, expected in [
    (':n\\ot(a)', (0, 0, 0, 1)),
    ('x:\\n\\o\\t(#i)', (0, 1, 0, 1)),
    (':N\\OT(.c)', (0, 0, 1, 0)),
]:
    s = Selector(text)
    if not s.wellformed:
        continue  # rejecting would at least be consistent
    again = Selector(s.selectorText)
    if s.specificity != expected or again.specificity != s.specificity:
        bad.append(
            '%r: expected specificity %r (argument of :not() counted) and the same '
            'after a round trip; got %r, serialised %r, reparsed %r'
            % (text, expected, s.specificity, s.selectorText, again.specificity)
        )
if bad:
    print('\n'.join(bad))
    sys.exit(1)
sys.exit(0)
