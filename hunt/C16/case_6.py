import sys, os; sys.path.insert(0, os.getcwd())
# C16 case 6: attribute names without namespace, attribute values and IDs are
# written without identifier escaping, so a selector whose attribute name/value
# starts with an escaped digit (or an ID with a control character) serialises to
# text which is rejected on reparse.
import logging
import cssutils
from cssutils.css import Selector

cssutils.log.setLevel(logging.FATAL)
cssutils.log.raiseExceptions = False

bad = []
for text in ['[\\31 a]', '[a=\\31]', '[a=\\2d 1]', '#\\1 x', 'x[\\31=\\32]']:
    s = Selector(text)
    if not s.wellformed:
        continue
    st = s.selectorText
    again = Selector(st)
    if not again.wellformed or again.specificity != s.specificity:
        bad.append(
            '%r: accepted with specificity %r, expected the serialised text to '
            'reparse to the same selector; serialised %r is %s'
            % (text, s.specificity, st,
               'REJECTED' if not again.wellformed else 'specificity %r' % (again.specificity,))
        )
if bad:
    print('\n'.join(bad))
    sys.exit(1)
sys.exit(0)
