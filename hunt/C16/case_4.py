import sys, os; sys.path.insert(0, os.getcwd())
# C16 case 4: the descendant combinator is dropped by the serialiser when the
# following simple selector's text ends with a space (escape terminator or an
# escaped space): 'a \31' -> 'a\000031 ' which reparses to the single type 'a1'.
import logging
import cssutils
from cssutils.css import Selector

cssutils.log.setLevel(logging.FATAL)
cssutils.log.raiseExceptions = False


def shape(sel):
    "sequence of simple selectors and combinators"
    return [(i.type, i.value) for i in sel.seq if i.type not in ('COMMENT', 'S')]


bad = []
for text in ['a \\31', 'a \\31 .b', 'a .x\\ ', 'a #x\\ ', 'a x\\ ']:
    s = Selector(text)
    if not s.wellformed:
        continue
    st = s.selectorText
    again = Selector(st)
    if again.specificity != s.specificity or shape(again) != shape(s):
        bad.append(
            '%r: expected the round trip to keep the descendant combinator; '
            'specificity %r, serialised %r, reparsed specificity %r, parts %r'
            % (text, s.specificity, st, again.specificity, shape(again))
        )
if bad:
    print('\n'.join(bad))
    sys.exit(1)
sys.exit(0)
