import sys, os; sys.path.insert(0, os.getcwd())
# C16 case 10: a Selector parsed detached and then attached to a sheet (through
# SelectorList.appendSelector / item assignment / CSSStyleRule.selectorList) is
# serialised with the sheet's namespaces; any namespace URI the sheet does not
# know - including "None" (= no namespace information) when the sheet has a default
# namespace - silently becomes the empty prefix '|name', i.e. another selector.
import logging
import cssutils
from cssutils.css import Selector, SelectorList, CSSStyleRule

cssutils.log.setLevel(logging.FATAL)
cssutils.log.raiseExceptions = False


def shape(sel):
    return [(i.type, i.value) for i in sel.seq if i.type not in ('COMMENT', 'S')]


bad = []

# (a) undeclared namespace smuggled in through appendSelector
sheet = cssutils.parseString('@namespace p "http://p"; x {left: 0}')
rule = sheet.cssRules[1]
s = Selector(('q|b#i', {'q': 'http://other'}))
before_text, before_spec, before_shape = s.selectorText, s.specificity, shape(s)
rule.selectorList.appendSelector(s)
if s in list(rule.selectorList):
    after = s.selectorText
    again = Selector((after, {'p': 'http://p'}))
    if shape(again) != before_shape:
        bad.append(
            'appendSelector(Selector(%r, q=http://other)) on an attached rule: '
            'expected an error or a serialisation which reparses to the same '
            'simple selectors %r; got %r (rule: %r) which reparses to %r'
            % (before_text, before_shape, after, rule.selectorText, shape(again))
        )

# (b) same through item assignment
sheet = cssutils.parseString('@namespace p "http://p"; x {left: 0}')
rule = sheet.cssRules[1]
s = Selector(('q|b', {'q': 'http://other'}))
before_shape = shape(s)
rule.selectorList[0] = s
if rule.selectorList[0] is s:
    again = Selector((s.selectorText, {'p': 'http://p'}))
    if shape(again) != before_shape:
        bad.append(
            'selectorList[0] = Selector("q|b", q=http://other): expected error or '
            'faithful text; got %r which reparses to %r instead of %r'
            % (s.selectorText, shape(again), before_shape)
        )

# (c) plain detached type selector attached to a sheet with a default namespace
sheet = cssutils.parseString('@namespace "http://d"; x {left: 0}')
rule = CSSStyleRule(selectorText='b.c')
rule.style.setProperty('left', '0')
s = rule.selectorList[0]
before_text, before_shape = s.selectorText, shape(s)
sheet.add(rule)
after = s.selectorText
if after != before_text:
    reparsed = cssutils.parseString(sheet.cssText).cssRules[-1].selectorList[0]
    detached = Selector(after)
    if shape(detached) != before_shape and shape(reparsed) != before_shape:
        bad.append(
            'CSSStyleRule("b.c") added to a sheet with a default namespace: '
            'expected text reparsing to %r; serialised %r, which reparses (in the '
            'sheet) to %r and (detached) to %r'
            % (before_shape, after, shape(reparsed), shape(detached))
        )

if bad:
    print('\n'.join(bad))
    sys.exit(1)
sys.exit(0)
