import sys, os; sys.path.insert(0, os.getcwd())
# C16 case 2: identifiers containing hex-escaped delimiters (\3e = '>', \2e = '.',
# \23 = '#', \20 = ' ', \7c = '|') are serialised with the raw character, so the
# serialised selector reparses to a different selector with another specificity.
import logging
import cssutils
from cssutils.css import Selector

cssutils.log.setLevel(logging.FATAL)
cssutils.log.raiseExceptions = False

bad = []
for text, expected in [
    ('a\\3e b', (0, 0, 0, 1)),
    ('.a\\2e b', (0, 0, 1, 0)),
    ('#a\\23 b', (0, 1, 0, 0)),
    ('a\\20 b', (0, 0, 0, 1)),
    ('a\\7c b', (0, 0, 0, 1)),
    ('[a\\3e b]', (0, 0, 1, 0)),
]:
    s = Selector(text)
    if not s.wellformed:
        continue
    st = s.selectorText
    again = Selector(st)
    if s.specificity != expected or again.specificity != expected:
        bad.append(
            '%r: expected specificity %r before and after a round trip; got %r, '
            'serialised %r, reparsed %r (%s)'
            % (text, expected, s.specificity, st, again.specificity,
               'accepted' if again.wellformed else 'REJECTED')
        )
if bad:
    print('\n'.join(bad))
    sys.exit(1)
sys.exit(0)
