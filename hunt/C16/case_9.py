import sys, os; sys.path.insert(0, os.getcwd())
# C16 case 9: a FUNCTION token following an already opened ':name(' is glued to
# the pseudo name, so ':not(foo(a)' (unbalanced) is accepted as a pseudo-class
# named 'not(foo(' and ':nth-child(foo(2n+1)' likewise.
import logging
import cssutils
from cssutils.css import Selector, SelectorList

cssutils.log.setLevel(logging.FATAL)
cssutils.log.raiseExceptions = False

bad = []
for text in [':not(foo(a)', 'x:nth-child(foo(2n+1)', '::sel(a(b(c)']:
    s = Selector(text)
    if s.wellformed:
        bad.append(
            '%r: expected rejection (unbalanced, function inside pseudo argument); '
            'accepted as %r with specificity %r'
            % (text, s.selectorText, s.specificity)
        )
sl = SelectorList('x, :not(foo(a)')
if sl.length:
    bad.append(
        "SelectorList('x, :not(foo(a)'): expected the whole list rejected, got %r"
        % sl.selectorText
    )
if bad:
    print('\n'.join(bad))
    sys.exit(1)
sys.exit(0)
