import sys, os; sys.path.insert(0, os.getcwd())
# C01: "The returned object can always be serialised, and that serialisation can
# again be parsed and serialised without an exception."
# '@CHARSET "x";' (or '@c\harset "x";', or '@charset"x";' without white space
# after the keyword) is not the @charset rule (that is the exact text
# '@charset "...";' only) and is kept as an *unknown* at-rule, but it is
# serialised as '@charset "x";' at the very start of the sheet.  The serialisation (bytes) now starts with a real @charset rule naming
# an encoding that does not exist (or a different one than the bytes are in).
import logging
import cssutils

cssutils.log.setLevel(logging.CRITICAL + 1)

failed = False
for text in ('@CHARSET "a";', '@charset"a";', '@CHARSET "utf-16"; b{left:0}', "@charset'';"):
    sheet = cssutils.parseString(text)          # fine, returns a sheet
    ser = sheet.cssText                         # fine, bytes
    try:
        again = cssutils.parseString(ser)       # parse the serialisation
        again.cssText
    except Exception as e:
        failed = True
        print('input %r -> serialisation %r' % (text, ser))
        print('  expected: the serialisation can be parsed and serialised again')
        print('  got: %s: %s' % (type(e).__name__, e))

sys.exit(1 if failed else 0)
