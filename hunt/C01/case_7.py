import sys, os; sys.path.insert(0, os.getcwd())
# C01: "The returned object can always be serialised ..."
# State: the documented serializer preference  cssutils.ser.prefs.defaultAtKeyword
# = False  ("use the literal @keyword of the source").  CSSSerializer._atkeyword
# then reads rule._keyword, which CSSMediaRule, CSSPageRule and CSSFontFaceRule
# never set: serialising any parsed sheet holding one of them raises
# AttributeError.
import logging
import cssutils

cssutils.log.setLevel(logging.CRITICAL + 1)

failed = False
cssutils.ser.prefs.defaultAtKeyword = False
try:
    for text in ('@media all { a { left: 0 } }', '@page { margin: 0 }', '@font-face { font-family: x }'):
        sheet = cssutils.parseString(text)
        try:
            sheet.cssText
        except Exception as e:
            failed = True
            print('prefs.defaultAtKeyword = False; parseString(%r).cssText' % text)
            print('  expected: the serialisation (with the keyword as written in the source)')
            print('  got: %s: %s' % (type(e).__name__, e))
finally:
    cssutils.ser.prefs.useDefaults()

sys.exit(1 if failed else 0)
