import sys, os; sys.path.insert(0, os.getcwd())
# C01: "The returned object can always be serialised, and that serialisation can
# again be parsed and serialised without an exception."
# An @charset rule naming an encoding that is not ASCII compatible for the
# '@charset "' prefix (all EBCDIC code pages, mac_arabic, mac_farsi) is accepted.
# The sheet is serialised in that encoding, so the bytes do not start with
# anything the decoder recognises: they are read as UTF-8 and do not decode.
import logging
import cssutils

cssutils.log.setLevel(logging.CRITICAL + 1)

failed = False
for enc in ('cp037', 'cp500', 'cp1140', 'mac_arabic'):
    text = '@charset "%s"; a { left: 1px }' % enc
    sheet = cssutils.parseString(text)
    ser = sheet.cssText
    try:
        cssutils.parseString(ser).cssText
    except Exception as e:
        failed = True
        print('input %r -> serialisation %r' % (text, ser))
        print('  expected: the serialisation can be parsed and serialised again')
        print('  got: %s: %s' % (type(e).__name__, e))

sys.exit(1 if failed else 0)
