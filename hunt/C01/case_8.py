import sys, os; sys.path.insert(0, os.getcwd())
# C01: "... return a DOM object, in time bounded by a low polynomial of the input
# length ..."   (borderline: the growth is cubic, not exponential)
# In '@media <query> "name" ... {' the tokens between the name and '{' are parsed
# with  self._parse(None, nameseq, nametokens, {})  where nametokens is a *list*.
# The default ATKEYWORD production calls _tokensupto2(tokenizer, token) with that
# list, which iterates it from the start again for every at-keyword, and each of
# the unknown rules built from it parses its nested at-keywords in the same way:
# n at-keywords cost about n**3.  2.8 kB need half a minute, 5.6 kB minutes.
import subprocess, time

CHILD = r'''
import sys, os; sys.path.insert(0, os.getcwd())
import logging, time, cssutils
cssutils.log.setLevel(logging.CRITICAL + 1)
n = int(sys.argv[1])
text = '@media ' + "@x 's' " * n + '{a{left:0}}'
t0 = time.perf_counter()
cssutils.parseString(text).cssText
print(len(text), time.perf_counter() - t0)
'''

def run(n, limit):
    try:
        out = subprocess.run([sys.executable, '-c', CHILD, str(n)], timeout=limit, check=True,
                             capture_output=True, text=True).stdout.split()
    except subprocess.TimeoutExpired:
        return None, None
    return int(out[0]), float(out[1])

l1, t1 = run(100, 120)
l2, t2 = run(400, 240)
failed = False
if t1 is None or t2 is None or (t2 > 2.0 and t2 / max(t1, 1e-3) > 4 ** 2.5):
    failed = True
    print("parseString('@media ' + \"@x 's' \" * n + '{a{left:0}}')")
    print('  expected: time growing at most about quadratically with the input length')
    print('  got: %s characters: %s s; %s characters (4 times as long): %s s' % (
        l1, 'timeout' if t1 is None else '%.2f' % t1, l2, 'more than 240' if t2 is None else '%.2f' % t2))

sys.exit(1 if failed else 0)
