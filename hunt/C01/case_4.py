import sys, os; sys.path.insert(0, os.getcwd())
# C01: "... return a DOM object, in time bounded by a low polynomial of the input
# length ..."
# An identifier containing control characters is serialised with six digit
# escapes (a\000001\000001...).  The validation macros in profiles.py match such
# an escape in many ways (unicode = \\[0-9a-f]{1,6}, the rest of the digits by
# nmchar [\w-], and "escape" has a second alternative \\[ -~] that also takes a
# hex digit): a non-matching value is retried about 6**n times.
import subprocess, time

CHILD = r'''
import sys, os; sys.path.insert(0, os.getcwd())
import logging, cssutils
cssutils.log.setLevel(logging.CRITICAL + 1)
text = sys.argv[2]
if sys.argv[1] == 'style':
    cssutils.parseStyle(text).cssText
else:
    cssutils.parseString(text).cssText
'''
LIMIT = 20  # seconds, for an input of a few hundred bytes at most

def run(kind, text):
    t0 = time.time()
    try:
        subprocess.run([sys.executable, '-c', CHILD, kind, text], timeout=LIMIT, check=True,
                       stdout=subprocess.DEVNULL, stderr=subprocess.DEVNULL)
    except subprocess.TimeoutExpired:
        return None
    return time.time() - t0

CASES = [
    ("sheet", "a{page:a" + "\\1" * 3 + " \"s\"}", "a{page:a" + "\\1" * 16 + " \"s\"}"),
    ("style", "counter-reset:a" + "\\1" * 3 + " \"s\"", "counter-reset:a" + "\\1" * 16 + " \"s\""),
]

failed = False
for kind, small, big in CASES:
    ts = run(kind, small)
    tb = run(kind, big)
    if tb is None:
        failed = True
        print('%s input of %d characters: %r' % (kind, len(big), big))
        print('  expected: parse + serialise in time polynomial in the input length '
              '(%d characters took %s s)' % (len(small), 'more than %d' % LIMIT if ts is None else '%.2f' % ts))
        print('  got: not finished after %d s (time grows exponentially with the number of items)' % LIMIT)

sys.exit(1 if failed else 0)
