import sys, os; sys.path.insert(0, os.getcwd())
# C01: "... return a DOM object ... without raising; syntax problems are only
# reported to the log."
# A hash whose name ends with an escaped line feed ('#1e3\a') passes the
# hex-colour test (its '$' also matches before a trailing '\n') but is 5
# characters long: int('', 16) -> ValueError escapes from the parser.
import logging
import cssutils

cssutils.log.setLevel(logging.CRITICAL + 1)

failed = False
for name, call in (
    ("parseString('a{x:#1e3\\\\a}')", lambda: cssutils.parseString('a{x:#1e3\\a}')),
    ("parseStyle('color:#abc\\\\a')", lambda: cssutils.parseStyle('color:#abc\\a')),
    ("parseString(b'a{x:#1e3\\\\a}')", lambda: cssutils.parseString(b'a{x:#1e3\\a}')),
):
    try:
        obj = call()
        obj.cssText
    except Exception as e:
        failed = True
        print(name)
        print('  expected: a DOM object, problems only logged')
        print('  got: %s: %s' % (type(e).__name__, e))

sys.exit(1 if failed else 0)
