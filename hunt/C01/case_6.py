import sys, os; sys.path.insert(0, os.getcwd())
# C01: "... return a DOM object, in time bounded by a low polynomial of the input
# length ..."
# Several property regexes of profiles.py repeat a group whose alternatives
# overlap, e.g. background = {background-attrs}(\s+{background-attrs})* where
# "inherit" is in all five alternatives, "center" in two and a position takes one
# or two lengths; font = ({font-attrs}\s+)*... with "normal"/"inherit" in three;
# voice-family = (({specific-voice}|{generic-voice}){w},{w})* where "male" is
# also an identifier.  An invalid value is retried k**n times.
import subprocess, time

CHILD = r'''
import sys, os; sys.path.insert(0, os.getcwd())
import logging, cssutils
cssutils.log.setLevel(logging.CRITICAL + 1)
text = sys.argv[2]
if sys.argv[1] == 'style':
    cssutils.parseStyle(text).cssText
else:
    cssutils.parseString(text).cssText
'''
LIMIT = 20  # seconds, for an input of a few hundred bytes at most

def run(kind, text):
    t0 = time.time()
    try:
        subprocess.run([sys.executable, '-c', CHILD, kind, text], timeout=LIMIT, check=True,
                       stdout=subprocess.DEVNULL, stderr=subprocess.DEVNULL)
    except subprocess.TimeoutExpired:
        return None
    return time.time() - t0

CASES = [
    ("sheet", "a{background:" + "inherit " * 3 + "1 x}", "a{background:" + "inherit " * 20 + "1 x}"),
    ("style", "background:" + "0 " * 4 + "x", "background:" + "0 " * 60 + "x"),
    ("style", "font:" + "normal " * 4 + "x", "font:" + "normal " * 30 + "x"),
    ("sheet", "a{voice-family:" + "male," * 4 + " 1}", "a{voice-family:" + "male," * 40 + " 1}"),
]

failed = False
for kind, small, big in CASES:
    ts = run(kind, small)
    tb = run(kind, big)
    if tb is None:
        failed = True
        print('%s input of %d characters: %r' % (kind, len(big), big))
        print('  expected: parse + serialise in time polynomial in the input length '
              '(%d characters took %s s)' % (len(small), 'more than %d' % LIMIT if ts is None else '%.2f' % ts))
        print('  got: not finished after %d s (time grows exponentially with the number of items)' % LIMIT)

sys.exit(1 if failed else 0)
