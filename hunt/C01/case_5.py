import sys, os; sys.path.insert(0, os.getcwd())
# C01: "... return a DOM object, in time bounded by a low polynomial of the input
# length ..."
# The "uri" macro of profiles.py is  url\({w}({string}|(\\\)|[^\)])+){w}\) :
# a quoted URL matches both alternatives, so every url("...") of a value can be
# matched in two ways and a value that is finally invalid is retried 2**n times.
import subprocess, time

CHILD = r'''
import sys, os; sys.path.insert(0, os.getcwd())
import logging, cssutils
cssutils.log.setLevel(logging.CRITICAL + 1)
text = sys.argv[2]
if sys.argv[1] == 'style':
    cssutils.parseStyle(text).cssText
else:
    cssutils.parseString(text).cssText
'''
LIMIT = 20  # seconds, for an input of a few hundred bytes at most

def run(kind, text):
    t0 = time.time()
    try:
        subprocess.run([sys.executable, '-c', CHILD, kind, text], timeout=LIMIT, check=True,
                       stdout=subprocess.DEVNULL, stderr=subprocess.DEVNULL)
    except subprocess.TimeoutExpired:
        return None
    return time.time() - t0

CASES = [
    ("sheet", "a{content:" + "url(\"a b\") " * 4 + "1}", "a{content:" + "url(\"a b\") " * 40 + "1}"),
    ("style", "background:" + "url(\"a b\") " * 4 + "1 x", "background:" + "url(\"a b\") " * 40 + "1 x"),
]

failed = False
for kind, small, big in CASES:
    ts = run(kind, small)
    tb = run(kind, big)
    if tb is None:
        failed = True
        print('%s input of %d characters: %r' % (kind, len(big), big))
        print('  expected: parse + serialise in time polynomial in the input length '
              '(%d characters took %s s)' % (len(small), 'more than %d' % LIMIT if ts is None else '%.2f' % ts))
        print('  got: not finished after %d s (time grows exponentially with the number of items)' % LIMIT)

sys.exit(1 if failed else 0)
