import sys, os; sys.path.insert(0, os.getcwd())
# C07 case 2: IncrementalDecoder.reset()/IncrementalEncoder.reset() keep the
# encoding that was auto-detected for the previous document, so a re-used
# (reset) object no longer detects and does not give the one-shot result.
import codecs
import cssutils.codec  # registers the "css" codec

failures = []

first = '@charset "x";a{}'.encode("utf-16")  # BOM -> utf-16
second = b'@charset "latin-1";\xe4{}'
expected = codecs.getdecoder("css")(second)[0]
dec = codecs.getincrementaldecoder("css")()
dec.decode(first, True)
dec.reset()
try:
    got = dec.decode(second, True)
except Exception as exc:  # noqa: BLE001
    got = "%s: %s" % (type(exc).__name__, exc)
if got != expected:
    failures.append(
        "IncrementalDecoder after reset(): expected %r, got %r" % (expected, got)
    )

text1 = '@charset "utf-16";a{}'
text2 = '@charset "latin-1";\xe4{}'
expected = codecs.getencoder("css")(text2)[0]
enc = codecs.getincrementalencoder("css")()
enc.encode(text1, True)
enc.reset()
got = enc.encode(text2, True)
if got != expected:
    failures.append(
        "IncrementalEncoder after reset(): expected %r, got %r" % (expected, got)
    )

if failures:
    print("VIOLATION: reset incremental codec differs from the one-shot result")
    print("\n".join(failures))
    sys.exit(1)
print("ok")
