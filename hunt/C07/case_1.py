import sys, os; sys.path.insert(0, os.getcwd())
# C07 case 1: the css StreamReader/StreamWriter hand every chunk to the inner
# codec's *stateless* Codec.decode()/encode(); for the CJK multi-byte and the
# ISO-2022 escape-sequence encodings a chunk border inside a character (or
# inside a shifted section) raises or silently yields other text.
import codecs, io
import cssutils.codec  # registers the "css" codec

failures = []


def read_chunked(data, size, **kw):
    reader = codecs.getreader("css")(io.BytesIO(data), **kw)
    out = []
    while True:
        part = reader.read(size)
        if not part:
            break
        out.append(part)
    return "".join(out)


def check_reader(text, size, **kw):
    data = codecs.getencoder("css")(text)[0]
    expected = codecs.getdecoder("css")(data, **kw)[0]
    try:
        got = read_chunked(data, size, **kw)
    except Exception as exc:  # noqa: BLE001
        got = "%s: %s" % (type(exc).__name__, exc)
    if got != expected:
        failures.append(
            "StreamReader %r read(%d) kw=%r\n  expected (one-shot): %r\n  got: %r"
            % (data, size, kw, expected, got)
        )


# cut inside a two-byte character: UnicodeDecodeError
check_reader('@charset "gbk";/*漢字*/', 18)
check_reader('@charset "shift_jis";/*あい*/', 24, encoding="shift_jis")
check_reader('@charset "euc-jp";/*あい*/', 1)
# cut inside a shifted section: silently different text
check_reader('@charset "iso2022_jp";/*あいう漢字*/', 9)

# writer: chunked output differs from the one-shot bytes
text = '@charset "iso2022_jp";/*あい*/'
expected = codecs.getencoder("css")(text)[0]
stream = io.BytesIO()
writer = codecs.getwriter("css")(stream)
for piece in (text[:25], text[25:]):
    writer.write(piece)
if stream.getvalue() != expected:
    failures.append(
        "StreamWriter write(%r); write(%r)\n  expected (one-shot): %r\n  got: %r"
        % (text[:25], text[25:], expected, stream.getvalue())
    )

if failures:
    print("VIOLATION: stream decoder/encoder differs from the one-shot result")
    print("\n".join(failures))
    sys.exit(1)
print("ok")
