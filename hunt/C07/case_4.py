import sys, os; sys.path.insert(0, os.getcwd())
# C07 case 4: getstate()/setstate() of the incremental css codecs always raise
# TypeError, so the standard text layer (io.TextIOWrapper / open(...,
# encoding="css")), which snapshots the decoder between chunks, cannot read in
# pieces, tell(), or append.
import codecs, io, tempfile
import cssutils.codec  # registers the "css" codec

failures = []
data = b'@charset "latin-1";\n\xe4{}\n'
expected = codecs.getdecoder("css")(data)[0]


def attempt(label, func, want):
    try:
        got = func()
    except Exception as exc:  # noqa: BLE001
        got = "%s: %s" % (type(exc).__name__, exc)
    if got != want:
        failures.append("%s: expected %r, got %r" % (label, want, got))


def chunked():
    f = io.TextIOWrapper(io.BytesIO(data), encoding="css")
    return "".join(iter(lambda: f.read(5), ""))


def lines():
    f = io.TextIOWrapper(io.BytesIO(data), encoding="css")
    return "".join(iter(f.readline, ""))


def append():
    fd, path = tempfile.mkstemp()
    os.close(fd)
    try:
        with open(path, "w", encoding="css") as f:
            f.write('@charset "latin-1";\xe4')
        with open(path, "a", encoding="css") as f:
            f.write("b")
        with open(path, "rb") as f:
            return f.read()
    finally:
        os.unlink(path)


def state_roundtrip():
    dec = codecs.getincrementaldecoder("css")()
    out = dec.decode(data[:22], False)
    state = dec.getstate()
    dec2 = codecs.getincrementaldecoder("css")()
    dec2.setstate(state)
    return out + dec2.decode(data[22:], True)


def enc_state():
    enc = codecs.getincrementalencoder("css")()
    enc.setstate(0)  # what TextIOWrapper does when positioned after offset 0
    return enc.encode("a", True)


attempt("TextIOWrapper.read(5) loop", chunked, expected)
attempt("TextIOWrapper.readline() loop", lines, expected)
attempt("open(..., 'a', encoding='css')", append, b'@charset "latin-1";\xe4b')
attempt("decoder getstate()/setstate() between two chunks", state_roundtrip, expected)
attempt("encoder setstate(0)", enc_state, b"a")

if failures:
    print("VIOLATION: incremental codec state API breaks chunked decoding/encoding")
    print("\n".join(failures))
    sys.exit(1)
print("ok")
