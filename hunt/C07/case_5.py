import sys, os; sys.path.insert(0, os.getcwd())
# C07 case 5: IncrementalDecoder.iterdecode() finishes with decode("", True),
# a str instead of bytes, and therefore always raises TypeError instead of
# yielding the one-shot result (IncrementalEncoder.iterencode() works).
import codecs
import cssutils.codec  # registers the "css" codec

failures = []
for chunks in ([b'@charset "latin-1";', b"\xe4{}"], [b"a{}"], []):
    data = b"".join(chunks)
    expected = codecs.getdecoder("css")(data)[0]
    dec = codecs.getincrementaldecoder("css")()
    try:
        got = "".join(dec.iterdecode(chunks))
    except Exception as exc:  # noqa: BLE001
        got = "%s: %s" % (type(exc).__name__, exc)
    if got != expected:
        failures.append(
            "iterdecode(%r): expected %r, got %r" % (chunks, expected, got)
        )

if failures:
    print("VIOLATION: IncrementalDecoder.iterdecode differs from the one-shot result")
    print("\n".join(failures))
    sys.exit(1)
print("ok")
