import sys, os; sys.path.insert(0, os.getcwd())
# C07 case 6: the header scan takes everything between '@charset "' and the
# next '"' - across newlines, ';' and '{' - as the "encoding name".  A text that
# has no @charset rule (the string is unterminated at the newline, cssutils'
# own parser rejects it too) loses style content on encode/decode, and with
# auto-detection the bytes are refused instead of being read as UTF-8.
import codecs
import cssutils.codec  # registers the "css" codec

failures = []
text = '@charset "utf-8;\na { content: "x" }\nb { color: red }'

data = codecs.getencoder("css")(text, encoding="utf-8")[0]
back = codecs.getdecoder("css")(text.encode("utf-8"), encoding="utf-8")[0]
if data.decode("utf-8") != text:
    failures.append(
        "encode(text, encoding='utf-8'): expected the text unchanged (no @charset "
        "rule to rewrite)\n  text: %r\n  got:  %r" % (text, data.decode("utf-8"))
    )
if back != text:
    failures.append(
        "decode(utf-8 bytes, encoding='utf-8'): expected the text unchanged\n"
        "  text: %r\n  got:  %r" % (text, back)
    )

detected = cssutils.codec.detectencoding_str(text.encode("utf-8"), True)
if detected != ("utf-8", False):
    failures.append(
        "detectencoding_str: expected ('utf-8', False) (no '@charset \"...\";' at "
        "offset 0), got %r" % (detected,)
    )
try:
    auto = codecs.getdecoder("css")(text.encode("utf-8"))[0]
except Exception as exc:  # noqa: BLE001
    auto = "%s: %s" % (type(exc).__name__, exc)
if auto != text:
    failures.append("decode(utf-8 bytes): expected the text, got %r" % (auto,))

if failures:
    print("VIOLATION: more than the name of a leading @charset rule is rewritten")
    print("\n".join(failures))
    sys.exit(1)
print("ok")
