import sys, os; sys.path.insert(0, os.getcwd())
# C07 case 3: the css StreamReader has no reset(): after seek(0) (which calls
# reset()) the inner reader keeps its state and the @charset fix-up is skipped,
# so reading the very same bytes again gives a different text.
import codecs, io
import cssutils.codec  # registers the "css" codec

failures = []

for data, kw in [
    (b'@charset "x";a{}', {"encoding": "ascii"}),
    ('@charset "x";a{}'.encode("utf-16"), {}),
    (b'\xef\xbb\xbf@charset "x";a{}', {}),
]:
    expected = codecs.getdecoder("css")(data, **kw)[0]
    reader = codecs.getreader("css")(io.BytesIO(data), **kw)
    one = reader.read()
    reader.seek(0)
    two = reader.read()
    if one != expected or two != expected:
        failures.append(
            "%r %r: expected %r both times, got %r then %r after seek(0)"
            % (data, kw, expected, one, two)
        )

# the writer analogue: seek(0) (which calls reset()) does not start over either
stream = io.BytesIO()
writer = codecs.getwriter("css")(stream, encoding="ascii")
writer.write('@charset "x";a{}')
writer.seek(0)
stream.truncate()
writer.write('@charset "x";b{}')
expected = codecs.getencoder("css")('@charset "x";b{}', encoding="ascii")[0]
if stream.getvalue() != expected:
    failures.append(
        "StreamWriter rewritten after seek(0): expected %r, got %r"
        % (expected, stream.getvalue())
    )

if failures:
    print("VIOLATION: re-used stream codec differs from the one-shot result")
    print("\n".join(failures))
    sys.exit(1)
print("ok")
