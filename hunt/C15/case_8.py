import sys, os; sys.path.insert(0, os.getcwd())
# C15: "removing a namespace still used by a selector is rejected" -
# CSSStyleSheet hooks cssRules.__delitem__ to deleteRule (which does the check)
# but the hook is set on the instance, so ``del sheet.cssRules[i]`` never
# reaches it and removes a used @namespace rule.
import logging
import xml.dom
import cssutils

cssutils.log.setLevel(logging.CRITICAL)

s = cssutils.parseString('@namespace p "a"; p|x {top:0}')
try:
    del s.cssRules[0]
except xml.dom.DOMException:
    pass

if 'a' not in s.namespaces.values():
    print('VIOLATION: expected "del sheet.cssRules[0]" (hooked to deleteRule by the '
          'sheet) to be rejected as namespace "a" is used by p|x;\n  it was removed, '
          'mapping %r, sheet %r' % (dict(s.namespaces.items()), s.cssText.decode('utf-8')))
    sys.exit(1)
print('ok')
sys.exit(0)
