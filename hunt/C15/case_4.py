import sys, os; sys.path.insert(0, os.getcwd())
# C15: a namespace prefix which needs an escape is serialised unescaped, the
# @namespace rule and the selectors using it are not well-formed any more
# (and prefix "\2a" is even read as the any-namespace marker "*").
import logging
import cssutils

cssutils.log.setLevel(logging.CRITICAL)


def names(sheet):
    out = []
    for r in sheet.cssRules:
        if r.type == r.STYLE_RULE:
            for sel in r.selectorList:
                out.extend(i.value for i in sel.seq if isinstance(i.value, tuple))
    return out


bad = []
for css in (r'@namespace \31 x "a"; \31 x|e {top:0}',
            r'@namespace p\20q "a"; p\20q|e {top:0}',
            r'@namespace \2a "a"; \2a|e {top:0}'):
    s = cssutils.parseString(css)
    first = names(s)
    if first != [('a', 'e')]:
        bad.append('%r: expected [("a", "e")], parsed as %r' % (css, first))
    txt = s.cssText.decode('utf-8')
    s2 = cssutils.parseString(txt)
    if dict(s2.namespaces.items()) != dict(s.namespaces.items()) or names(s2) != first:
        bad.append('%r serialised as %r which re-parses to namespaces %r, names %r '
                   '(expected %r, %r)' % (css, txt, dict(s2.namespaces.items()),
                                          names(s2), dict(s.namespaces.items()), first))

# same through the mapping interface
s = cssutils.parseString('k {top:0}')
s.namespaces['\\31 x'] = 'a'
txt = s.cssText.decode('utf-8')
if dict(cssutils.parseString(txt).namespaces.items()) != dict(s.namespaces.items()):
    bad.append('namespaces["\\\\31 x"] = "a": serialised %r, re-parsed namespaces %r, expected %r'
               % (txt, dict(cssutils.parseString(txt).namespaces.items()),
                  dict(s.namespaces.items())))

if bad:
    print('VIOLATION:')
    for b in bad:
        print('  ' + b)
    sys.exit(1)
print('ok')
sys.exit(0)
