import sys, os; sys.path.insert(0, os.getcwd())
# C15: a prefixed ATTRIBUTE name whose namespace URI is (or becomes) the
# default namespace is serialised without prefix -> it now denotes the
# attribute in NO namespace (attributes never take the default namespace).
import logging
import cssutils

cssutils.log.setLevel(logging.CRITICAL)


def attr_pairs(sheet):
    out = []
    for r in sheet.cssRules:
        if r.type == r.STYLE_RULE:
            for sel in r.selectorList:
                for item in sel.seq:
                    if item.type == 'attribute-selector':
                        out.append(item.value)
    return out


def text(sheet):
    return sheet.cssText.decode('utf-8')


bad = []

# (a) pure parsing: the later default declaration of the same URI supersedes p
s = cssutils.parseString('@namespace p "a"; @namespace "a"; [p|att] {top:0}')
before = attr_pairs(s)
after = attr_pairs(cssutils.parseString(text(s)))
if before != after:
    bad.append(('parse', before, after, text(s)))

# (b) re-binding the URI to the default namespace through the mapping interface
s = cssutils.parseString('@namespace p "a"; [p|att] {top:0}')
before = attr_pairs(s)
s.namespaces[''] = 'a'
now = attr_pairs(s)
after = attr_pairs(cssutils.parseString(text(s)))
if not (before == now == after):
    bad.append(('rebind', before, after, text(s)))

if bad:
    for kind, b, a, t in bad:
        print('VIOLATION (%s): expected the attribute to keep denoting %r after '
              're-parsing the serialisation,\n  got %r from %r' % (kind, b, a, t))
    sys.exit(1)
print('ok')
sys.exit(0)
