import sys, os; sys.path.insert(0, os.getcwd())
# C15: "every namespace URI used by a selector is declared" - Selector and
# SelectorList OBJECTS (built detached, with their own namespaces) are adopted
# by a rule of the sheet without any check:
#   rule.selectorList = SelectorList(...), selectorList.append(Selector(...)),
#   selectorList[0] = Selector(...)
# (the same selectors given as text are rejected with NamespaceErr)
import logging
import xml.dom
import cssutils

cssutils.log.setLevel(logging.CRITICAL)

BASE = '@namespace p "a"; p|e {left:0}'


def undeclared(sheet):
    declared = set(sheet.namespaces.values())
    out = []
    for r in sheet.cssRules:
        if r.type == r.STYLE_RULE:
            for sel in r.selectorList:
                for i in sel.seq:
                    if (isinstance(i.value, tuple) and isinstance(i.value[0], str)
                            and i.value[0] and i.value[0] not in declared):
                        out.append(i.value)
    return out


def op_assign(s):
    s.cssRules[1].selectorList = cssutils.css.SelectorList(
        selectorText=('q|k', {'q': 'zzz'}))


def op_append(s):
    s.cssRules[1].selectorList.append(cssutils.css.Selector(('q|k', {'q': 'zzz'})))


def op_setitem(s):
    s.cssRules[1].selectorList[0] = cssutils.css.Selector(('q|k', {'q': 'zzz'}))


bad = []
for mode in (True, False):
    cssutils.log.raiseExceptions = mode
    for op in (op_assign, op_append, op_setitem):
        s = cssutils.parseString(BASE)
        try:
            op(s)
        except xml.dom.DOMException:
            pass
        u = undeclared(s)
        if u:
            txt = s.cssText.decode('utf-8')
            bad.append('raiseExceptions=%s %s: %r used but not declared, serialised %r'
                       % (mode, op.__name__, u, txt))

if bad:
    print('VIOLATION: expected NamespaceErr / an unchanged rule')
    for b in bad:
        print('  ' + b)
    sys.exit(1)
print('ok')
sys.exit(0)
