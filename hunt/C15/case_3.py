import sys, os; sys.path.insert(0, os.getcwd())
# C15: changing the prefix of an attached @namespace rule (rule.prefix = ...
# or rule.cssText = ...) to a prefix that is already bound is accepted.
# The sheet then holds two rules with the same prefix, the mapping picks the
# FIRST one (CSS: the last one wins), a used URI is not reachable any more and
# the serialisation re-resolves to other pairs.
import logging
import xml.dom
import cssutils

cssutils.log.setLevel(logging.CRITICAL)


def names(sheet):
    out = []
    for r in sheet.cssRules:
        if r.type == r.STYLE_RULE:
            for sel in r.selectorList:
                out.extend(i.value for i in sel.seq if isinstance(i.value, tuple))
    return out


def css_effective(sheet):
    "prefix -> URI as CSS reads the @namespace rules (last declaration wins)"
    m = {}
    for r in sheet.cssRules:
        if r.type == r.NAMESPACE_RULE:
            m[r.prefix] = r.namespaceURI
    return m


bad = []
for how in ('prefix', 'cssText'):
    s = cssutils.parseString('@namespace p "a"; @namespace q "b"; p|x, q|y {top:0}')
    before = names(s)
    try:
        if how == 'prefix':
            s.cssRules[1].prefix = 'p'
        else:
            s.cssRules[1].cssText = '@namespace p "b";'
    except xml.dom.DOMException:
        pass
    mapping = dict(s.namespaces.items())
    eff = css_effective(s)
    txt = s.cssText.decode('utf-8')
    after = names(cssutils.parseString(txt))
    if mapping != eff:
        bad.append('%s: mapping %r != effective @namespace rules %r' % (how, mapping, eff))
    if before != after:
        bad.append('%s: names %r re-resolve to %r via %r' % (how, before, after, txt))

if bad:
    print('VIOLATION: expected the prefix change to be rejected or to keep mapping, '
          'rules and selectors consistent')
    for b in bad:
        print('  ' + b)
    sys.exit(1)
print('ok')
sys.exit(0)
