import sys, os; sys.path.insert(0, os.getcwd())
# C15: "removing a namespace still used by a selector is rejected" - not for a
# namespace whose URI is the string "*" when it is used by a universal
# selector (p|*).
import logging
import xml.dom
import cssutils

cssutils.log.setLevel(logging.CRITICAL)

bad = []
for mode in (True, False):
    cssutils.log.raiseExceptions = mode
    for how in ('mapping', 'deleteRule'):
        s = cssutils.parseString('@namespace p "*"; p|* {top:0}')
        used = [i.value for i in s.cssRules[1].selectorList[0].seq]
        assert used == [('*', '*')], used
        try:
            if how == 'mapping':
                del s.namespaces['p']
            else:
                s.deleteRule(0)
        except xml.dom.DOMException:
            pass
        if 'p' not in s.namespaces:
            bad.append('raiseExceptions=%s, %s: namespace p ("*") is used by selector p|* '
                       'but its removal was accepted; sheet is now %r'
                       % (mode, how, s.cssText.decode('utf-8')))

if bad:
    print('VIOLATION: expected NoModificationAllowedErr and an unchanged sheet')
    for b in bad:
        print('  ' + b)
    sys.exit(1)
print('ok')
sys.exit(0)
