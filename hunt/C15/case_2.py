import sys, os; sys.path.insert(0, os.getcwd())
# C15: a comment between "prefix|" and the name swallows the prefix:
#  - an UNDECLARED prefix is accepted,
#  - a declared prefix / the explicit "no namespace" marker is dropped, the
#    name changes its (namespace URI, local name) meaning.
import logging
import xml.dom
import cssutils

cssutils.log.setLevel(logging.CRITICAL)


def names(sheet):
    out = []
    for r in sheet.cssRules:
        if r.type == r.STYLE_RULE:
            for sel in r.selectorList:
                out.extend(i.value for i in sel.seq if isinstance(i.value, tuple))
    return out


bad = []
for mode in (True, False):
    cssutils.log.raiseExceptions = mode

    # undeclared prefix q must be rejected
    s = cssutils.parseString('@namespace p "a"; k {top:0}')
    try:
        s.cssRules[1].selectorText = 'q|/**/z'
    except xml.dom.DOMException:
        pass
    if names(s) != [(None, 'k')]:
        bad.append('raiseExceptions=%s: selector "q|/**/z" with undeclared prefix q '
                   'expected to be rejected, rule is now %r %r'
                   % (mode, s.cssRules[1].selectorText, names(s)))

    # declared prefix must resolve to its URI
    s = cssutils.parseString('@namespace p "a"; k {top:0}')
    try:
        s.cssRules[1].selectorText = 'p|/**/z'
    except xml.dom.DOMException:
        pass
    if names(s) not in ([('a', 'z')], [(None, 'k')]):
        bad.append('raiseExceptions=%s: "p|/**/z" expected (a, z) (or rejection), got %r'
                   % (mode, names(s)))

    # explicit no-namespace must stay no-namespace although a default exists
    s = cssutils.parseString('@namespace "a"; k {top:0}')
    try:
        s.cssRules[1].selectorText = '|/**/z'
    except xml.dom.DOMException:
        pass
    if names(s) not in ([('', 'z')], [('a', 'k')]):
        bad.append('raiseExceptions=%s: "|/**/z" expected (\'\', z) (or rejection), got %r'
                   % (mode, names(s)))

if bad:
    print('VIOLATION:')
    for b in bad:
        print('  ' + b)
    sys.exit(1)
print('ok')
sys.exit(0)
