import sys, os; sys.path.insert(0, os.getcwd())
# C15: "every namespace URI used by a selector is declared" - a rule object
# using a namespace which is not declared in the sheet is refused by
# CSSStyleSheet.insertRule only at the top level and one level below; it is
# accepted (a) by CSSMediaRule.insertRule/add of an attached @media rule and
# (b) when it sits in an @media nested in the inserted @media.
import logging
import xml.dom
import cssutils

cssutils.log.setLevel(logging.CRITICAL)


def undeclared(sheet):
    declared = set(sheet.namespaces.values())
    out = []

    def walk(rules):
        for r in rules:
            if r.type == r.STYLE_RULE:
                for sel in r.selectorList:
                    for i in sel.seq:
                        if (isinstance(i.value, tuple) and isinstance(i.value[0], str)
                                and i.value[0] and i.value[0] not in declared):
                            out.append(i.value)
            elif r.type == r.MEDIA_RULE:
                walk(r.cssRules)
    walk(sheet.cssRules)
    return out


BASE = '@namespace p "a"; p|e {left:0} @media all { p|f {left:0} }'
bad = []
for mode in (True, False):
    cssutils.log.raiseExceptions = mode

    # control: top level insert is refused
    s = cssutils.parseString(BASE)
    try:
        s.insertRule(cssutils.css.CSSStyleRule(selectorText=('q|k', {'q': 'zzz'}),
                                               style='top:0'))
    except xml.dom.DOMException:
        pass
    assert not undeclared(s)

    # (a) into an attached @media rule
    s = cssutils.parseString(BASE)
    try:
        s.cssRules[2].insertRule(
            cssutils.css.CSSStyleRule(selectorText=('q|k', {'q': 'zzz'}), style='top:0'))
    except xml.dom.DOMException:
        pass
    if undeclared(s):
        bad.append('raiseExceptions=%s CSSMediaRule.insertRule(rule): %r used but not declared: %r'
                   % (mode, undeclared(s), s.cssText.decode('utf-8')))

    # (b) nested @media below the inserted @media
    other = cssutils.parseString(
        '@namespace q "zzz"; @media all { @media print { q|z {top:0} } }')
    s = cssutils.parseString(BASE)
    try:
        s.insertRule(other.cssRules[1])
    except xml.dom.DOMException:
        pass
    if undeclared(s):
        bad.append('raiseExceptions=%s insertRule(@media{@media{q|z}}): %r used but not declared: %r'
                   % (mode, undeclared(s), s.cssText.decode('utf-8')))

if bad:
    print('VIOLATION: expected NamespaceErr / the rule not to be added')
    for b in bad:
        print('  ' + b)
    sys.exit(1)
print('ok')
sys.exit(0)
