import sys, os; sys.path.insert(0, os.getcwd())
# C15: CSSStyleSheet.cssText documents "a parseable string or a tuple of
# (cssText, dict-of-namespaces)".  The given namespaces are used to resolve the
# prefixes but are not declared in the sheet afterwards.
import logging
import xml.dom
import cssutils

cssutils.log.setLevel(logging.CRITICAL)

s = cssutils.css.CSSStyleSheet()
try:
    s.cssText = ('p|x {top:0}', {'p': 'a'})
except xml.dom.DOMException:
    pass

used = []
for r in s.cssRules:
    if r.type == r.STYLE_RULE:
        for sel in r.selectorList:
            used.extend(i.value[0] for i in sel.seq if isinstance(i.value, tuple))
missing = [u for u in used if u and u not in s.namespaces.values()]
if missing:
    print('VIOLATION: expected every used namespace URI to be declared (or the '
          'selector to be rejected);\n  used %r, mapping %r, serialised %r'
          % (used, dict(s.namespaces.items()), s.cssText.decode('utf-8')))
    sys.exit(1)
print('ok')
sys.exit(0)
