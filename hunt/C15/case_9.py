import sys, os; sys.path.insert(0, os.getcwd())
# C15: inserting a rule object which still belongs to another sheet does not
# detach (or copy) it: the rule stays in the old sheet's cssRules but its
# selectors now resolve prefixes with the NEW sheet's namespaces, so the old
# sheet serialises a prefix it does not declare.  cssutils.resolveImports()
# does exactly this and corrupts the sheets it reads.
import logging
import xml.dom
import cssutils

cssutils.log.setLevel(logging.CRITICAL)


def names(sheet):
    out = []
    for r in sheet.cssRules:
        if r.type == r.STYLE_RULE:
            for sel in r.selectorList:
                out.extend(i.value for i in sel.seq if isinstance(i.value, tuple))
    return out


bad = []

A = cssutils.parseString('@namespace p "a"; p|x {top:0}')
B = cssutils.parseString('@namespace q "a";')
B.add(A.cssRules[1])
txt = A.cssText.decode('utf-8')
if len(A.cssRules) == 2 and names(cssutils.parseString(txt)) != names(A):
    bad.append('B.add(A.cssRules[1]): sheet A still holds the rule with %r but '
               'serialises %r which re-parses to %r' % (names(A), txt,
                                                        names(cssutils.parseString(txt))))


def fetcher(url):
    return None, '@namespace p "b"; p|x {top:0}'


parser = cssutils.CSSParser(fetcher=fetcher)
main = parser.parseString('@import "i.css"; @namespace q "b"; q|y {left:0}',
                          href='http://example.com/main.css')
imported = main.cssRules[0].styleSheet
before = names(imported)
cssutils.resolveImports(main)
txt = imported.cssText.decode('utf-8')
after = names(cssutils.parseString(txt))
if before != after:
    bad.append('resolveImports(main): the imported sheet held %r, it now serialises '
               '%r which re-parses to %r' % (before, txt, after))

if bad:
    print('VIOLATION: expected the serialisation of a sheet to re-resolve to the same names')
    for b in bad:
        print('  ' + b)
    sys.exit(1)
print('ok')
sys.exit(0)
