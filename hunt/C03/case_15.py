import sys, os; sys.path.insert(0, os.getcwd())
# C03 case 15 (re-used object): a rule that belongs to sheet A is added to
# sheet B.  The edit is accepted, the rule is now listed in BOTH sheets but
# resolves its namespace prefixes through B only, so A serialises a prefix
# that A does not declare and loses the rule on reparse.
import logging
import cssutils

cssutils.log.setLevel(logging.FATAL)

a = cssutils.parseString('@namespace p "u"; p|x { left: 0 }')
b = cssutils.parseString('@namespace q "u"; y { top: 0 }')
rule = a.cssRules[1]
b.add(rule)

in_a = any(r is rule for r in a.cssRules)
t1 = a.cssText
a2 = cssutils.parseString(t1)
t2 = a2.cssText
if in_a and (t1 != t2 or a.cssRules.length != a2.cssRules.length):
    print('VIOLATION (C03 case 15): a rule shared by two sheets')
    print("A = '@namespace p \"u\"; p|x { left: 0 }', B = '@namespace q \"u\"; y { top: 0 }', B.add(A.cssRules[1])")
    print('  rule still in A.cssRules:', in_a, ' parentStyleSheet is B:', rule.parentStyleSheet is b)
    print('  A serialised            :', t1)
    print('  A reparsed, serialised  :', t2, '   (expected: identical)')
    print('  rules in A before/after :', a.cssRules.length, a2.cssRules.length)
    sys.exit(1)
print('ok')
sys.exit(0)
