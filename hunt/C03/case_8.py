import sys, os; sys.path.insert(0, os.getcwd())
# C03 case 8: setting CSSImportRule.name on a rule that was parsed without a
# name is accepted (rule.name reads back the new value) but the rule's
# serialisation does not contain the name, so it is gone after a reparse.
import logging
import cssutils

cssutils.log.setLevel(logging.FATAL)

failed = []
for raising in (False, True):
    for css in ['@import "x.css";', '@import url(x.css) print;']:
        sheet = cssutils.parseString(css)
        cssutils.log.raiseExceptions = raising
        try:
            sheet.cssRules[0].name = 'title'
        finally:
            cssutils.log.raiseExceptions = False
        name0 = sheet.cssRules[0].name
        t1 = sheet.cssText
        name1 = cssutils.parseString(t1).cssRules[0].name
        if name0 != name1:
            failed.append((css, raising, name0, t1, name1))

if failed:
    print('VIOLATION (C03 case 8): an accepted CSSImportRule.name edit is not serialised')
    for css, raising, name0, t1, name1 in failed:
        print('input %r, rule.name = "title" (raiseExceptions=%s)' % (css, raising))
        print('  rule.name after the edit :', repr(name0))
        print('  serialisation            :', t1)
        print('  rule.name after reparsing:', repr(name1), '   (expected: %r)' % name0)
    sys.exit(1)
print('ok')
sys.exit(0)
