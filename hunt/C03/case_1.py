import sys, os; sys.path.insert(0, os.getcwd())
# C03 case 1: an identifier containing a hex-escaped ASCII character that is
# not an identifier character ('{', ';', ',', ' ', '.', ...; a leading digit in
# an attribute name or namespace prefix; a control character in an #id) is
# serialised WITHOUT the escape, so the serialisation parses to something else
# (or to nothing).
import logging
import cssutils

cssutils.log.setLevel(logging.FATAL)

TRIGGERS = [
    r'a\7b  { left: 0 }',  # type selector "a{"
    r'.a\3b  { left: 0 }',  # class "a;"
    r'a\2c b { left: 0 }',  # ONE type selector "a,b" becomes a list of two
    r'a\20 b { left: 0 }',  # ONE type selector "a b" becomes a descendant pair
    r'#a\a  { left: 0 }',  # id with a line feed
    r'a[\31 x] { left: 0 }',  # attribute name "1x"
    r'@namespace \31 p "u"; \31 p|a { left: 0 }',  # prefix "1p"
    r'a { left\3a x: 0 }',  # property name "left:x"
    r'a { font-family: b\2c c }',  # ONE ident "b,c" becomes two values
    r'a { font-family: b\3b c }',  # ident "b;c" ends the declaration
]

failed = []
for css in TRIGGERS:
    s0 = cssutils.parseString(css)
    t1 = s0.cssText
    s1 = cssutils.parseString(t1)
    t2 = s1.cssText
    r0 = [r.cssText for r in s0.cssRules]
    r1 = [r.cssText for r in s1.cssRules]
    sel0 = [
        [(i.type, i.value) for i in sel.seq]
        for r in s0.cssRules
        if r.type == r.STYLE_RULE
        for sel in r.selectorList
    ]
    sel1 = [
        [(i.type, i.value) for i in sel.seq]
        for r in s1.cssRules
        if r.type == r.STYLE_RULE
        for sel in r.selectorList
    ]
    val0 = [
        [v.cssText for v in p.propertyValue]
        for r in s0.cssRules
        if r.type == r.STYLE_RULE
        for p in r.style.getProperties(all=True)
    ]
    val1 = [
        [v.cssText for v in p.propertyValue]
        for r in s1.cssRules
        if r.type == r.STYLE_RULE
        for p in r.style.getProperties(all=True)
    ]
    if t1 != t2 or r0 != r1 or sel0 != sel1 or val0 != val1:
        failed.append((css, t1, t2, sel0, sel1, val0, val1))

if failed:
    print('VIOLATION (C03 case 1): identifiers lose the escapes they need')
    for css, t1, t2, sel0, sel1, val0, val1 in failed:
        print('input            :', repr(css))
        print('  serialisation 1:', t1)
        print('  serialisation 2:', t2, '   (expected: identical to serialisation 1)')
        if sel0 != sel1:
            print('  selectors 1    :', sel0)
            print('  selectors 2    :', sel1)
        if val0 != val1:
            print('  values 1       :', val0)
            print('  values 2       :', val1)
    sys.exit(1)
print('ok')
sys.exit(0)
