import sys, os; sys.path.insert(0, os.getcwd())
# C03 case 3: names which are kept in normalised form (pseudo-classes and
# -elements, the unit of a dimension, function names, unknown at-keywords) lose
# a "simple" escape such as '\{' or '\;' when serialised, because
# helper.normalize() strips the backslash and nothing puts it back.
import logging
import cssutils

cssutils.log.setLevel(logging.FATAL)

failed = []
for css in [
    r'a:b\{ { left: 0 }',  # pseudo-class "b{"
    r'a::b\; { left: 0 }',  # pseudo-element "b;"
    r'a { left: 1e\{ }',  # dimension with unit "e{"
    r'a { left: f\;(1) }',  # function "f;("
    r'@foo\{ x;',  # unknown at-rule "@foo{"
]:
    s0 = cssutils.parseString(css)
    t1 = s0.cssText
    s1 = cssutils.parseString(t1)
    t2 = s1.cssText
    r0 = [(r.typeString, r.cssText) for r in s0.cssRules]
    r1 = [(r.typeString, r.cssText) for r in s1.cssRules]
    if not t1 or t1 != t2 or r0 != r1:
        failed.append((css, t1, t2, r0, r1))

if failed:
    print('VIOLATION (C03 case 3): normalised names are written without the escape they need')
    for css, t1, t2, r0, r1 in failed:
        print('input            :', repr(css))
        print('  serialisation 1:', t1)
        print('  serialisation 2:', t2, '   (expected: identical)')
        print('  rules 1        :', r0)
        print('  rules 2        :', r1)
    sys.exit(1)
print('ok')
sys.exit(0)
