import sys, os; sys.path.insert(0, os.getcwd())
# C03 case 5: a single-quoted string containing an escaped double quote
# ('a\"b' - legal, if unusual) is serialised as "a\\"b": helper.string() puts a
# second backslash in front of the quote, which now ends the string.
import logging
import cssutils

cssutils.log.setLevel(logging.FATAL)

failed = []
for css in [
    "a { content: 'x\\\"y' }",
    "a[title='x\\\"y'] { left: 0 }",
    "a { background: url('x\\\"y') }",
    "@import 'x\\\"y';",
    "@import 'x' 'n\\\"m';",
    "@namespace p 'x\\\"y';",
]:
    s0 = cssutils.parseString(css)
    t1 = s0.cssText
    s1 = cssutils.parseString(t1)
    t2 = s1.cssText
    if not t1 or t1 != t2:
        failed.append((css, t1, t2))

if failed:
    print('VIOLATION (C03 case 5): \\" inside a single-quoted string is escaped twice')
    for css, t1, t2 in failed:
        print('input            :', repr(css))
        print('  serialisation 1:', t1)
        print('  serialisation 2:', t2, '   (expected: identical)')
    sys.exit(1)
print('ok')
sys.exit(0)
