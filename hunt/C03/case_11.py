import sys, os; sys.path.insert(0, os.getcwd())
# C03 case 11: a comment between the name and the pseudo-page of an @page
# selector ('@page a/*c*/:first') is followed by a blank when serialised
# ('a/*c*/ :first'); that blank is a syntax error for the @page selector parser,
# so the whole rule is gone after the reparse.
import logging
import cssutils

cssutils.log.setLevel(logging.FATAL)

css = '@page a/*c*/:first { margin: 0 }'
s0 = cssutils.parseString(css)
t1 = s0.cssText
s1 = cssutils.parseString(t1)
t2 = s1.cssText

# the selector read and set back on its own
rule = cssutils.parseString(css).cssRules[0]
before = rule.selectorText
try:
    rule.selectorText = before
    after = rule.selectorText
except Exception as e:
    after = 'raised %s: %s' % (type(e).__name__, e)

n0 = len([r for r in s0.cssRules if r.cssText])
n1 = len([r for r in s1.cssRules if r.cssText])
if t1 != t2 or n0 != n1 or before != after:
    print('VIOLATION (C03 case 11): @page selector with a comment does not survive')
    print('input               :', repr(css))
    print('  serialisation 1   :', t1)
    print('  serialisation 2   :', t2, '   (expected: identical)')
    print('  rules with content before/after:', n0, n1)
    print('  selectorText      :', repr(before))
    print('  set back on itself:', repr(after), '   (expected: unchanged, no error)')
    sys.exit(1)
print('ok')
sys.exit(0)
