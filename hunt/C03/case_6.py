import sys, os; sys.path.insert(0, os.getcwd())
# C03 case 6: the tokenizer resolves hex escapes inside COMMENT tokens.  A
# comment has no escapes in CSS; '/* \2a/ x */' is a comment whose text is
# ' \2a/ x ', but it is stored (and serialised) as '/* */ x */', i.e. a shorter
# comment followed by garbage which swallows the following rules.
import logging
import cssutils

cssutils.log.setLevel(logging.FATAL)

failed = []
for css in [
    '/* \\2a/ x */ a { left: 0 }',  # rule level
    'a { /* \\2a/ */ left: 0 }',  # declaration level
]:
    s0 = cssutils.parseString(css)
    t1 = s0.cssText
    s1 = cssutils.parseString(t1)
    t2 = s1.cssText
    r0 = [r.cssText for r in s0.cssRules]
    r1 = [r.cssText for r in s1.cssRules]
    if t1 != t2 or r0 != r1:
        failed.append((css, t1, t2, r0, r1))

if failed:
    print('VIOLATION (C03 case 6): escapes are resolved inside comments')
    for css, t1, t2, r0, r1 in failed:
        print('input            :', repr(css))
        print('  serialisation 1:', t1)
        print('  serialisation 2:', t2, '   (expected: identical)')
        print('  rules 1        :', r0)
        print('  rules 2        :', r1, '   (expected: the same)')
    sys.exit(1)
print('ok')
sys.exit(0)
