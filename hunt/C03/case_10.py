import sys, os; sys.path.insert(0, os.getcwd())
# C03 case 10: an ATTRIBUTE whose namespace is the sheet's default namespace is
# serialised without prefix ('[a]').  The default namespace does not apply to
# attributes, so after reparsing the attribute is in no namespace at all.
import logging
import cssutils

cssutils.log.setLevel(logging.FATAL)


def attributes(sheet):
    return [
        [i.value for i in sel.seq if i.type == 'attribute-selector']
        for r in sheet.cssRules
        if r.type == r.STYLE_RULE
        for sel in r.selectorList
    ]


failed = []

# from parsing alone: the second @namespace rule replaces the first (same URI)
css = '@namespace p "u"; @namespace "u"; *[p|a] { left: 0 }'
s0 = cssutils.parseString(css)
a0 = attributes(s0)
t1 = s0.cssText
a1 = attributes(cssutils.parseString(t1))
if a0 != a1:
    failed.append((repr(css), a0, t1, a1))

# by an accepted edit: make the prefixed namespace the default one
s0 = cssutils.parseString('@namespace p "u"; p|b[p|a] { left: 0 }')
s0.cssRules[0].prefix = ''
a0 = attributes(s0)
t1 = s0.cssText
a1 = attributes(cssutils.parseString(t1))
if a0 != a1:
    failed.append(('\'@namespace p "u"; p|b[p|a] { left: 0 }\' + cssRules[0].prefix = ""', a0, t1, a1))

if failed:
    print('VIOLATION (C03 case 10): attribute in the default namespace loses its namespace')
    for what, a0, t1, a1 in failed:
        print(what)
        print('  attribute before    :', a0)
        print('  serialisation       :', t1)
        print('  attribute afterwards:', a1, '   (expected: the same)')
    sys.exit(1)
print('ok')
sys.exit(0)
