import sys, os; sys.path.insert(0, os.getcwd())
# C03 case 2: a token whose text ends with a blank (an identifier ending in an
# escaped space '\ ' or in an out-of-range escape such as '\110000 ') makes the
# serialiser delete the separator BEFORE it, gluing it to the previous token:
# a descendant combinator disappears, two values become one, '@page x\ ' becomes
# the unknown rule '@pagex\ '.
import logging
import cssutils

cssutils.log.setLevel(logging.FATAL)

failed = []


def selectors(sheet):
    return [
        [(i.type, i.value) for i in sel.seq]
        for r in sheet.cssRules
        if r.type == r.STYLE_RULE
        for sel in r.selectorList
    ]


def values(sheet):
    return [
        [v.cssText for v in p.propertyValue]
        for r in sheet.cssRules
        if r.type == r.STYLE_RULE
        for p in r.style.getProperties(all=True)
    ]


def types(sheet):
    return [r.typeString for r in sheet.cssRules]


for css in [
    'a b\\  c { left: 0 }',  # "a" descendant "b\ " descendant "c"
    'a { font-family: b c\\  d }',  # three identifiers
    '@page x\\  { margin: 0 }',  # page rule named "x\ "
    '@namespace x\\  "u";',  # namespace rule with prefix "x\ "
]:
    s0 = cssutils.parseString(css)
    t1 = s0.cssText
    s1 = cssutils.parseString(t1)
    t2 = s1.cssText
    a = (selectors(s0), values(s0), types(s0))
    b = (selectors(s1), values(s1), types(s1))
    if t1 != t2 or a != b:
        failed.append((css, t1, t2, a, b))

if failed:
    print('VIOLATION (C03 case 2): separator in front of a token ending in a blank is dropped')
    for css, t1, t2, a, b in failed:
        print('input            :', repr(css))
        print('  serialisation 1:', t1)
        print('  serialisation 2:', t2)
        print('  DOM 1 (selectors, values, rule types):', a)
        print('  DOM 2 (expected: the same)           :', b)
    sys.exit(1)
print('ok')
sys.exit(0)
