import sys, os; sys.path.insert(0, os.getcwd())
# C03 case 4: the hex escape of a backslash ('\5c ') inside a string or URI is
# resolved by the tokenizer to a bare backslash, which the serialiser writes
# unescaped; in the output it escapes whatever follows it (the closing quote,
# a hex digit ...).
import logging
import cssutils

cssutils.log.setLevel(logging.FATAL)

failed = []
for css, get in [
    (r'a { content: "x\5c b" }', lambda s: s.cssRules[0].style.getPropertyValue('content')),
    (r"a { content: 'x\5c \"y' }", lambda s: s.cssRules[0].style.getPropertyValue('content')),
    (r'a { background: url(x\5c b) }', lambda s: s.cssRules[0].style.getPropertyValue('background')),
    (r'@import "x\5c b";', lambda s: s.cssRules[0].href),
    (r'@namespace p "x\5c b";', lambda s: s.cssRules[0].namespaceURI),
]:
    s0 = cssutils.parseString(css)
    t1 = s0.cssText
    v0 = get(s0)
    s1 = cssutils.parseString(t1)
    t2 = s1.cssText
    try:
        v1 = get(s1)
    except Exception as e:  # rule is gone
        v1 = 'n/a (%s)' % type(e).__name__
    if t1 != t2 or v0 != v1:
        failed.append((css, t1, t2, v0, v1))

if failed:
    print('VIOLATION (C03 case 4): an escaped backslash (\\5c) in a string or URI is written as a bare backslash')
    for css, t1, t2, v0, v1 in failed:
        print('input            :', repr(css))
        print('  serialisation 1:', t1)
        print('  serialisation 2:', t2, '   (expected: identical)')
        print('  value/target 1 :', repr(v0))
        print('  value/target 2 :', repr(v1), '   (expected: the same)')
    sys.exit(1)
print('ok')
sys.exit(0)
