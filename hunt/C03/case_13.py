import sys, os; sys.path.insert(0, os.getcwd())
# C03 case 13: the css codec rewrites the name in the @charset rule with the
# name of the encoding it detected from the byte pattern.  A sheet declaring
# "utf-16le" / "UTF-16BE" / "U16" / "utf_16" / "utf-8-sig" therefore comes back
# with another encoding name ("utf-16-le", "utf-16", "utf-8" ...): the second
# serialisation is not byte-identical and CSSCharsetRule.encoding differs.
import logging
import cssutils

cssutils.log.setLevel(logging.FATAL)

failed = []
for enc in ['utf-16le', 'utf-16be', 'utf-32be', 'u16', 'utf_16', 'utf-8-sig']:
    css = '@charset "%s"; a { left: 0 }' % enc
    s0 = cssutils.parseString(css)
    if s0.cssRules.length != 2:
        continue
    e0 = s0.cssRules[0].encoding
    t1 = s0.cssText
    s1 = cssutils.parseString(t1)
    e1 = s1.cssRules[0].encoding if s1.cssRules.length else None
    t2 = s1.cssText
    if t1 != t2 or e0 != e1:
        failed.append((css, e0, e1, t1, t2))

if failed:
    print('VIOLATION (C03 case 13): the declared encoding name is replaced on reparse')
    for css, e0, e1, t1, t2 in failed:
        print('input            :', repr(css))
        print('  encoding 1 / 2 :', repr(e0), '/', repr(e1), '   (expected: equal)')
        print('  serialisation 1:', t1)
        print('  serialisation 2:', t2, '   (expected: identical)')
    sys.exit(1)
print('ok')
sys.exit(0)
