import sys, os; sys.path.insert(0, os.getcwd())
# C03 case 14: a non-ASCII character in the keyword of an unknown at-rule, in a
# sheet whose encoding cannot represent it.  The serialiser writes '@\E4 x;'
# (escapecss error handler, upper case hex).  Escapes in ATKEYWORD tokens are
# never resolved, the keyword is only lower-cased: the reparsed rule is '@\e4 '
# and the second serialisation differs from the first.
import logging
import cssutils

cssutils.log.setLevel(logging.FATAL)

css = '@charset "ascii"; @\xe4 x;'
s0 = cssutils.parseString(css)
t1 = s0.cssText
s1 = cssutils.parseString(t1)
t2 = s1.cssText
k0 = s0.cssRules[1].atkeyword
k1 = s1.cssRules[1].atkeyword
if t1 != t2 or k0 != k1:
    print('VIOLATION (C03 case 14): non-ASCII at-keyword in an ASCII sheet')
    print('input            :', repr(css))
    print('  serialisation 1:', t1)
    print('  serialisation 2:', t2, '   (expected: identical)')
    print('  atkeyword 1 / 2:', repr(k0), '/', repr(k1), '   (expected: equal)')
    sys.exit(1)
print('ok')
sys.exit(0)
