import sys, os; sys.path.insert(0, os.getcwd())
# C03 case 12: '@charset "cp500";' (any EBCDIC code page: cp037, cp273, cp424,
# cp500, cp875, cp1026, cp1140; also mac_arabic / mac_farsi, whose encoders map
# the blank to 0xA0) is accepted, and the sheet is serialised in that encoding.
# The parser can only find an @charset rule written in ASCII-compatible bytes,
# so it decodes the serialisation as UTF-8 and raises UnicodeDecodeError.
import logging
import cssutils

cssutils.log.setLevel(logging.FATAL)

failed = []
for enc in ['cp500', 'cp037', 'cp1140', 'mac_arabic']:
    css = '@charset "%s"; a { left: 0 }' % enc
    s0 = cssutils.parseString(css)
    if s0.cssRules.length != 2:
        continue  # encoding refused: nothing claimed
    t1 = s0.cssText
    try:
        s1 = cssutils.parseString(t1)
        t2 = s1.cssText
        n = s1.cssRules.length
    except Exception as e:
        failed.append((css, t1, 'raised %s: %s' % (type(e).__name__, e)))
        continue
    if t1 != t2 or n != 2:
        failed.append((css, t1, t2))

if failed:
    print('VIOLATION (C03 case 12): serialisation in an accepted encoding cannot be parsed')
    for css, t1, t2 in failed:
        print('input            :', repr(css))
        print('  serialisation 1:', t1)
        print('  reparsing it   :', t2, '   (expected: the same 2 rules)')
    sys.exit(1)
print('ok')
sys.exit(0)
