import sys, os; sys.path.insert(0, os.getcwd())
# C03 case 9: when the serialiser finds no prefix for the namespace of an
# element it silently writes an EMPTY prefix ('|a' = "a in no namespace").
#  (a) a type selector parsed while the sheet had no default namespace has
#      namespace None (= any namespace).  After an accepted edit that declares a
#      default namespace it is written as '|a' and comes back as ('', 'a').
#  (b) a Selector object using namespace "u" that is appended to the selector
#      list of a rule in a sheet which does not declare "u" is accepted and
#      written as '|a' as well.
import logging
import cssutils

cssutils.log.setLevel(logging.FATAL)


def elements(sheet):
    return [
        [i.value for i in sel.seq if isinstance(i.value, tuple)]
        for r in sheet.cssRules
        if r.type == r.STYLE_RULE
        for sel in r.selectorList
    ]


failed = []

# (a)
sheet = cssutils.parseString('a { left: 0 }')
sheet.insertRule('@namespace "u";', 0)  # same with sheet.namespaces[''] = 'u'
e0 = elements(sheet)
t1 = sheet.cssText
again = cssutils.parseString(t1)
e1 = elements(again)
if e0 != e1 or t1 != again.cssText:
    failed.append(('(a) "a { left: 0 }" + insertRule(\'@namespace "u";\', 0)', e0, t1, e1))

# (b)
sheet = cssutils.parseString('b { left: 0 }')
sel = cssutils.css.Selector(('p|a', {'p': 'u'}))
sheet.cssRules[0].selectorList.append(sel)
e0 = elements(sheet)
t1 = sheet.cssText
again = cssutils.parseString(t1)
e1 = elements(again)
if e0 != e1 or t1 != again.cssText:
    failed.append(("(b) selectorList.append(Selector(('p|a', {'p': 'u'})))", e0, t1, e1))

if failed:
    print('VIOLATION (C03 case 9): a namespace without prefix is serialised as the empty prefix')
    for what, e0, t1, e1 in failed:
        print(what)
        print('  (namespace, name) of the elements before:', e0)
        print('  serialisation                           :', t1)
        print('  (namespace, name) after reparsing       :', e1, '   (expected: the same)')
    sys.exit(1)
print('ok')
sys.exit(0)
