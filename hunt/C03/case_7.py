import sys, os; sys.path.insert(0, os.getcwd())
# C03 case 7: a number is written with '%f' (6 decimals) and then stripped of
# zeros but for one: 1.0000001px -> '1.0px', 0.0000001px -> '0.0px'.  Reading
# that back gives the integers 1 / 0, which are written as '1px' / '0', so the
# second serialisation differs from the first.
import logging
import cssutils

cssutils.log.setLevel(logging.FATAL)

failed = []
for css in [
    'a { left: 1.0000001px }',
    'a { left: 0.0000001px }',
    'a { left: 2.99999999 }',
    '@media (min-width: 1.0000001px) { a { left: 0 } }',
]:
    s0 = cssutils.parseString(css)
    t1 = s0.cssText
    t2 = cssutils.parseString(t1).cssText
    if t1 != t2:
        failed.append((css, t1, t2))

# the same for a property value read and set back on its own
p = cssutils.css.Property('left', '1.0000001px')
before = p.propertyValue.cssText
p.propertyValue.cssText = before
after = p.propertyValue.cssText
if before != after:
    failed.append(('PropertyValue.cssText set back on itself', before, after))

if failed:
    print('VIOLATION (C03 case 7): numbers are not serialised to a fixed point')
    for css, t1, t2 in failed:
        print('input            :', repr(css))
        print('  serialisation 1:', t1)
        print('  serialisation 2:', t2, '   (expected: identical)')
    sys.exit(1)
print('ok')
sys.exit(0)
