import sys, os; sys.path.insert(0, os.getcwd())
"""C12 case 3: in log mode a value that was rejected earlier poisons the
Property for every later value: ``Property._setPropertyValue`` computes
``self.wellformed = self.wellformed and value.wellformed``, so once a bad
value cleared the flag a valid value can never set it again.  The valid value
is stored but the property serialises as '' and vanishes from its
declaration block."""
import logging

import cssutils

cssutils.log.setLevel(logging.FATAL)

failed = []
saved_mode = cssutils.log.raiseExceptions
cssutils.log.raiseExceptions = False  # log mode
try:
    fresh = cssutils.css.Property('left', '1px')
    fresh.value = '2px'

    reused = cssutils.css.Property('left', '1px')
    reused.value = '$'  # rejected (logged), property keeps 1px
    reused.value = '2px'  # valid

    if (reused.cssText, reused.wellformed) != (fresh.cssText, fresh.wellformed):
        failed.append(
            "Property('left', '1px'); .value = '2px'\n"
            '  expected cssText=%r wellformed=%r\n'
            "  got      cssText=%r wellformed=%r (value=%r) after an earlier rejected .value = '$'"
            % (fresh.cssText, fresh.wellformed, reused.cssText, reused.wellformed, reused.value)
        )

    # the same inside a parsed declaration block
    style = cssutils.parseStyle('left: 1px; top: 0')
    p = style.getProperty('left')
    p.value = ''  # rejected
    p.value = '2px'
    expected = cssutils.parseStyle('left: 1px; top: 0')
    expected.getProperty('left').value = '2px'
    if style.cssText != expected.cssText:
        failed.append(
            'declaration block after left was set to 2px:\n'
            '  expected %r\n  got      %r (after an earlier rejected empty value)'
            % (expected.cssText, style.cssText)
        )
finally:
    cssutils.log.raiseExceptions = saved_mode

if failed:
    print('VIOLATION (C12, result of parsing depends on what was rejected earlier)')
    for f in failed:
        print(f)
    sys.exit(1)
print('ok: a value rejected earlier does not influence a later valid value')
sys.exit(0)
