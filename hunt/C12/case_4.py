import sys, os; sys.path.insert(0, os.getcwd())
"""C12 case 4 (weaker): the documented position attributes ``e.line`` /
``e.col`` of an exception raised by a parse in raising mode are stored on the
exception *class* (``xml.dom.SyntaxErr.line = ...`` in
``_ErrorHandler.__handle``), not on the instance.  The outcome of an earlier
parse call (its exception) is therefore rewritten by every later failing
call: it reports the position of an error in a different text."""
import logging
import xml.dom

import cssutils

cssutils.log.setLevel(logging.FATAL)

parser = cssutils.CSSParser(raiseExceptions=True)


def failing_parse(text):
    try:
        parser.parseString(text)
    except xml.dom.DOMException as e:
        return e
    return None


first = failing_parse('a { color: red; $ }')  # error in line 1
if first is None or not hasattr(first, 'line'):
    print('ok: nothing to compare (no exception with position information)')
    sys.exit(0)
pos_before = (first.line, first.col)

second = failing_parse('\n\n\n\nb {\n  $ }')  # error in line 6 of another text
pos_after = (first.line, first.col)

if pos_after != pos_before:
    print('VIOLATION (C12, the outcome of a parse call depends on other parse calls)')
    print("exception raised for 'a { color: red; $ }' (%s):" % first)
    print('  expected (line, col) to stay %r' % (pos_before,))
    print('  got      (line, col) ==      %r after another text failed to parse' % (pos_after,))
    print('  class attribute xml.dom.SyntaxErr.line = %r' % getattr(xml.dom.SyntaxErr, 'line', '<unset>'))
    sys.exit(1)
print('ok: the position reported by an exception is not changed by later parse calls')
sys.exit(0)
