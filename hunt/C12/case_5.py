import sys, os; sys.path.insert(0, os.getcwd())
"""C12 case 5 (borderline, overlaps with "a rejected text leaves the object
as it was"): in log mode a CSSUnknownRule which already holds ``@x;`` and is
given the text ``@y { a }`` ends up as ``@x { a }`` - neither what it was
nor what the new text parses to, but a blend of the text parsed earlier and
the new one (``atkeyword`` refuses the other keyword, logs, and the new
content is stored anyway).  In raising mode the same call is refused with
InvalidModificationErr and the rule stays ``@x;``."""
import logging

import cssutils

cssutils.log.setLevel(logging.FATAL)

NEW = '@y { a }'
saved_mode = cssutils.log.raiseExceptions
cssutils.log.raiseExceptions = False  # log mode
try:
    fresh = cssutils.css.CSSUnknownRule(NEW).cssText
    rule = cssutils.css.CSSUnknownRule('@x;')
    before = rule.cssText
    rule.cssText = NEW
    after = rule.cssText
finally:
    cssutils.log.raiseExceptions = saved_mode

if after not in (before, fresh):
    print('VIOLATION (C12, result of parsing a text depends on the text parsed earlier)')
    print('CSSUnknownRule(%r).cssText = %r' % ('@x;', NEW))
    print('  expected %r (the new text) or %r (refused, unchanged)' % (fresh, before))
    print('  got      %r' % after)
    sys.exit(1)
print('ok: the rule holds either the old or the new text')
sys.exit(0)
