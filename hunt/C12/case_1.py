import sys, os; sys.path.insert(0, os.getcwd())
"""C12 case 1: the global serializer remembers the selectors of every style
rule it has serialised while ``prefs.indentSpecificities`` was on
(``CSSSerializer._selectors`` / ``_selectorlevel``).  The serialisation of a
text therefore depends on what was serialised before - and the indentation
level found last even survives switching the preference off again."""
import logging

import cssutils

cssutils.log.setLevel(logging.FATAL)

TEXT = 'a#c { x: 1 }'
OTHER = 'a.b { x: 1 }'


def ser(text):
    return cssutils.parseString(text).cssText


failed = []

cssutils.ser.prefs.useDefaults()
default_first = ser(TEXT)

# (a) same text, same explicitly set preferences, different history
cssutils.ser.prefs.indentSpecificities = True
first = ser(TEXT)
ser(OTHER)  # an unrelated sheet is serialised in between
second = ser(TEXT)
if first != second:
    failed.append(
        'with prefs.indentSpecificities=True the same text was serialised '
        'differently after an unrelated sheet had been serialised:\n'
        '  expected %r\n  got      %r' % (first, second)
    )

# (b) back to the default preferences: the output must be the default output
cssutils.ser.prefs.useDefaults()
default_again = ser(TEXT)
if default_again != default_first:
    failed.append(
        'with default preferences (prefs.useDefaults()) the text is not '
        'serialised as it was at the start of the process:\n'
        '  expected %r\n  got      %r' % (default_first, default_again)
    )

if failed:
    print('VIOLATION (C12, serialisation depends on earlier serialisations)')
    for f in failed:
        print(f)
    sys.exit(1)
print('ok: serialisation did not depend on earlier serialisations')
sys.exit(0)
