import sys, os; sys.path.insert(0, os.getcwd())
"""C12 case 2: a re-used MediaQuery keeps the media type of the text it held
before when the new text is not a plain media type (``not tv and (color)``,
``(color)``, ``only all`` ...): ``MediaQuery._setMediaText`` only assigns
``_mediaType`` for a simple query and never clears it.  The result of parsing
the new text depends on what was parsed into the object earlier; MediaList
then treats the query as the old medium (``appendMedium`` removes it)."""
import logging

import cssutils

cssutils.log.setLevel(logging.FATAL)
MediaQuery = cssutils.stylesheets.MediaQuery
MediaList = cssutils.stylesheets.MediaList

NEW = 'not screen and (color)'
failed = []

fresh = MediaQuery(NEW)
reused = MediaQuery('print')
reused.mediaText = NEW
if (reused.mediaText, reused.mediaType) != (fresh.mediaText, fresh.mediaType):
    failed.append(
        'MediaQuery.mediaText = %r\n'
        '  expected (fresh object)  mediaText=%r mediaType=%r\n'
        '  got (object held "print") mediaText=%r mediaType=%r'
        % (NEW, fresh.mediaText, fresh.mediaType, reused.mediaText, reused.mediaType)
    )

# consequence inside a parsed sheet
sheet = cssutils.parseString('@media print, tv { a { left: 0 } }')
ml = sheet.cssRules[0].media
ml[0].mediaText = NEW
ml.appendMedium('print')
expected = MediaList(NEW + ', tv')
expected.appendMedium('print')
if ml.mediaText != expected.mediaText:
    failed.append(
        'media list after the first query was re-parsed as %r and "print" '
        'was appended:\n  expected %r\n  got      %r'
        % (NEW, expected.mediaText, ml.mediaText)
    )

if failed:
    print('VIOLATION (C12, result of parsing depends on what the object parsed before)')
    for f in failed:
        print(f)
    sys.exit(1)
print('ok: a re-used MediaQuery gives the same result as a new one')
sys.exit(0)
