import sys, os; sys.path.insert(0, os.getcwd())
# C19 (flattening): "... with every relative URL rewritten so that, from the combined
# sheet's location, it resolves to the same absolute URL as it did from its original sheet."
# resolveImports does not copy the rules of the imported sheets, it puts the very same
# rule objects into the combined sheet and rewrites their URLs in place.  So
#  - flattening the same (unchanged, still parsed) sheet a second time re-bases the
#    already re-based URLs again (sub/i.png -> sub/sub/i.png), and
#  - because the rule objects are shared, the second call also corrupts the combined
#    sheet returned by the first call.
import logging
import urllib.parse
import cssutils

cssutils.log.setLevel(logging.CRITICAL)
cssutils.log.raiseExceptions = False

BASE = 'http://example.org/css/'
files = {
    BASE + 'main.css': '@import "sub/a.css"; m { background: url(m.png) }',
    BASE + 'sub/a.css': 'a { background: url(i.png) }',
}
parser = cssutils.CSSParser(fetcher=lambda url: (None, files[url]) if url in files else None)
main = parser.parseString(files[BASE + 'main.css'], href=BASE + 'main.css')
assert main.cssRules[0].hrefFound
want = [BASE + 'sub/i.png', BASE + 'm.png']


def resolved(sheet):
    return [urllib.parse.urljoin(sheet.href, u) for u in cssutils.getUrls(sheet)]


first = cssutils.resolveImports(main)
r1 = resolved(first)
second = cssutils.resolveImports(main)
r2 = resolved(second)
r1_after = resolved(first)

failed = []
if r1 != want:
    failed.append(f'first flattening: expected {want}, got {r1}')
if r2 != want:
    failed.append(f'second flattening of the same sheet: expected {want}, got {r2}')
if r1_after != want:
    failed.append(f'result of the first flattening after the second one: expected {want}, got {r1_after}')
if failed:
    print('VIOLATION (flattening rewrites the rules of the imported sheets in place):')
    for f in failed:
        print(' -', f)
    sys.exit(1)
print('ok')
