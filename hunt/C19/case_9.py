import sys, os; sys.path.insert(0, os.getcwd())
# C19 (flattening): "Flattening a sheet's @import tree produces one sheet holding the rules
# of all reachable sheets ... with every relative URL rewritten ...".
# A url() value that urllib.parse.urlsplit rejects (unbalanced '[' in the authority part)
# is accepted by the parser, enumerated by getUrls and survives replaceUrls with the
# identity replacer, but makes resolveImports die with a bare ValueError - in both error
# modes, nothing is logged and no sheet is produced.
import logging
import urllib.parse
import cssutils

cssutils.log.setLevel(logging.CRITICAL)

BASE = 'http://example.org/css/'
files = {
    BASE + 'main.css': '@import "sub/a.css"; m { color: red }',
    BASE + 'sub/a.css': 'a { background: url(//[cdn/i.png) } b { background: url(ok.png) }',
}
failed = []
for raising in (False, True):
    cssutils.log.raiseExceptions = raising
    parser = cssutils.CSSParser(fetcher=lambda url: (None, files[url]) if url in files else None)
    main = parser.parseString(files[BASE + 'main.css'], href=BASE + 'main.css')
    assert main.cssRules[0].hrefFound
    assert list(cssutils.getUrls(main.cssRules[0].styleSheet)) == ['//[cdn/i.png', 'ok.png']
    try:
        flat = cssutils.resolveImports(main)
    except ValueError as e:
        failed.append(f'raiseExceptions={raising}: resolveImports raised ValueError: {e}')
        continue
    got = [urllib.parse.urljoin(BASE + 'main.css', u) for u in list(cssutils.getUrls(flat))[1:]]
    if got != [BASE + 'sub/ok.png']:
        failed.append(f'raiseExceptions={raising}: ok.png resolves to {got}')
cssutils.log.raiseExceptions = True

if failed:
    print('VIOLATION (no combined sheet; expected one with url(ok.png) re-based to sub/ok.png):')
    for f in failed:
        print(' -', f)
    sys.exit(1)
print('ok')
