import sys, os; sys.path.insert(0, os.getcwd())
# C19 (flattening): "... with every relative URL rewritten so that, from the combined
# sheet's location, it resolves to the same absolute URL as it did from its original sheet."
# resolveImports(sheet, target) fills a caller supplied combined sheet.  URLs are only ever
# re-based against the location of the *importing* sheet, never against target.href, so
# when the combined sheet lives elsewhere (e.g. build/all.css) every relative URL -
# including those of the top sheet itself and the kept @import rules - points elsewhere.
import logging
import urllib.parse
import cssutils

cssutils.log.setLevel(logging.CRITICAL)
cssutils.log.raiseExceptions = False

BASE = 'http://example.org/css/'
files = {
    BASE + 'main.css': '@import "sub/a.css"; m { background: url(m.png) }',
    BASE + 'sub/a.css': 'a { background: url(i.png) }',
}
parser = cssutils.CSSParser(fetcher=lambda url: (None, files[url]) if url in files else None)
main = parser.parseString(files[BASE + 'main.css'], href=BASE + 'main.css')
assert main.cssRules[0].hrefFound

target = cssutils.css.CSSStyleSheet(href='http://example.org/build/all.css')
flat = cssutils.resolveImports(main, target)
assert flat is target
urls = list(cssutils.getUrls(flat))
got = [urllib.parse.urljoin(flat.href, u) for u in urls]
want = [BASE + 'sub/i.png', BASE + 'm.png']
if got != want:
    print('VIOLATION (URLs are not re-based to the location of a given target sheet):')
    print('  combined sheet location:', flat.href)
    print('  expected URLs resolving to', want)
    print('  got', urls, 'resolving to', got)
    sys.exit(1)
print('ok')
