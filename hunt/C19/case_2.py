import sys, os; sys.path.insert(0, os.getcwd())
# C19 (flattening): "... with every relative URL rewritten so that, from the combined
# sheet's location, it resolves to the same absolute URL as it did from its original sheet."
# A relative URL that already contains percent-escapes (or reserved characters such as
# ';' and '=') is quoted again by the re-basing code: a%20b.png -> a%2520b.png,
# which names a different resource.  Happens even for an import from the same directory.
import logging
import urllib.parse
import cssutils

cssutils.log.setLevel(logging.CRITICAL)
cssutils.log.raiseExceptions = False

BASE = 'http://example.org/css/'
urls = ['a%20b.png', 'img/%C3%A4.png', 'sprite.png;v=1']
failed = []
for imp in ('a.css', 'sub/a.css', 'my%20dir/a.css'):
    files = {
        BASE + 'main.css': f'@import "{imp}";',
        BASE + imp: ' '.join(f'a{i} {{ background: url({u}) }}' for i, u in enumerate(urls)),
    }
    parser = cssutils.CSSParser(
        fetcher=lambda url, files=files: (None, files[url]) if url in files else None
    )
    main = parser.parseString(files[BASE + 'main.css'], href=BASE + 'main.css')
    assert main.cssRules[0].hrefFound
    flat = cssutils.resolveImports(main)
    got = [urllib.parse.urljoin(BASE + 'main.css', u) for u in cssutils.getUrls(flat)]
    want = [urllib.parse.urljoin(BASE + imp, u) for u in urls]
    if got != want:
        failed.append(
            f'@import "{imp}": URLs {urls}\n     expected to resolve to {want}\n'
            f'     combined sheet has   {list(cssutils.getUrls(flat))}\n     which resolve to     {got}'
        )

if failed:
    print('VIOLATION (percent-escapes / reserved characters are quoted a second time):')
    for f in failed:
        print(' -', f)
    sys.exit(1)
print('ok')
