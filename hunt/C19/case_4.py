import sys, os; sys.path.insert(0, os.getcwd())
# C19 (flattening): "... or the @import kept as it is when the target is unavailable or
# wrapping would be invalid ... and with every relative URL rewritten so that, from the
# combined sheet's location, it resolves to the same absolute URL as it did from its
# original sheet."
# An @import that has to be kept and that comes from an imported sheet in another
# directory is moved into the combined sheet with its relative href untouched
# (resolveImports calls replaceUrls(..., ignoreImportRules=True)), so it now points
# to a different sheet.
import logging
import urllib.parse
import cssutils

cssutils.log.setLevel(logging.CRITICAL)
cssutils.log.raiseExceptions = False

BASE = 'http://example.org/css/'
files = {
    BASE + 'main.css': '@import "sub/a.css"; m { color: red }',
    # fonts.css can be loaded but holds @font-face, which may not be wrapped in @media
    # missing.css can not be loaded
    BASE + 'sub/a.css': '@import "fonts.css" print; @import "missing.css"; a { color: green }',
    BASE + 'sub/fonts.css': '@font-face { font-family: x; src: url(x.woff) }',
}
parser = cssutils.CSSParser(fetcher=lambda url: (None, files[url]) if url in files else None)
main = parser.parseString(files[BASE + 'main.css'], href=BASE + 'main.css')
assert main.cssRules[0].hrefFound
flat = cssutils.resolveImports(main)

kept = [r.href for r in flat.cssRules if r.type == r.IMPORT_RULE]
got = sorted(urllib.parse.urljoin(flat.href, h) for h in kept)
want = sorted([BASE + 'sub/fonts.css', BASE + 'sub/missing.css'])
if got != want:
    print('VIOLATION (kept @import of an imported sheet is not re-based):')
    print('  combined sheet (href=%s):' % flat.href)
    print('    ' + flat.cssText.decode().replace('\n', '\n    '))
    print('  expected the kept @import rules to resolve to', want)
    print('  but they are', kept, 'and resolve to', got)
    sys.exit(1)
print('ok')
