import sys, os; sys.path.insert(0, os.getcwd())
# C19 (flattening): "... produces one sheet holding the rules of all reachable sheets in
# cascade order, each imported group wrapped in the media of its @import - or the @import
# kept as it is when the target is unavailable or wrapping would be invalid".
# When a later @import has to be kept while an earlier one is inlined, the kept @import is
# put in front of the inlined rules (CSSStyleSheet.add moves an @import to the top), so the
# two groups swap their places in the cascade: in main.css the rules of b.css come after
# (and win over) the rules of a.css, in the combined sheet they come before (and lose).
import logging
import cssutils

cssutils.log.setLevel(logging.CRITICAL)
cssutils.log.raiseExceptions = False

BASE = 'http://example.org/css/'
files = {
    BASE + 'main.css': '@import "a.css"; @import "b.css" print; m { color: blue }',
    BASE + 'a.css': 'p { color: red }',
    # @page may not be wrapped in @media by cssutils, so this @import is kept
    BASE + 'b.css': 'p { color: green } @page { margin: 1cm }',
}
parser = cssutils.CSSParser(fetcher=lambda url: (None, files[url]) if url in files else None)
main = parser.parseString(files[BASE + 'main.css'], href=BASE + 'main.css')
assert all(r.hrefFound for r in main.cssRules[:2])
flat = cssutils.resolveImports(main)

pos_a = pos_b = None
for i, rule in enumerate(flat.cssRules):
    if rule.type == rule.IMPORT_RULE:
        # the import itself stands for its group
        if rule.href == 'a.css' and pos_a is None:
            pos_a = i
        if rule.href == 'b.css' and pos_b is None:
            pos_b = i
    elif 'red' in rule.cssText and pos_a is None:
        pos_a = i
    elif 'green' in rule.cssText and pos_b is None:
        pos_b = i

if pos_a is None or pos_b is None or not pos_a < pos_b:
    print('VIOLATION (a kept @import jumps ahead of rules inlined from an earlier @import):')
    print('  main.css :', files[BASE + 'main.css'])
    print('  expected : the group of a.css (p {color: red}) before the group of b.css')
    print(f'  got      : a.css group at rule index {pos_a}, b.css group at rule index {pos_b}:')
    print('    ' + flat.cssText.decode().replace('\n', '\n    '))
    sys.exit(1)
print('ok')
