import sys, os; sys.path.insert(0, os.getcwd())
# C19: "Enumerating the URLs of a sheet yields ... every url() value exactly once";
# "replacing URLs applies the replacer exactly once to each of them";
# flattening: "every relative URL rewritten so that ... it resolves to the same absolute URL".
# url() values declared in an @variables rule (cssutils' CSS Variables support, resolved by
# default when serialising and by csscombine) are not seen by getUrls/replaceUrls, so a
# flattened sheet emits them un-re-based.
import logging
import re
import urllib.parse
import cssutils

cssutils.log.setLevel(logging.CRITICAL)
cssutils.log.raiseExceptions = False

failed = []
css = '@variables { logo: url(logo.png) } a { background: var(logo); list-style: url(f.png) }'
sheet = cssutils.parseString(css)
got = list(cssutils.getUrls(sheet))
if got != ['logo.png', 'f.png']:
    failed.append(f"getUrls: expected ['logo.png', 'f.png'], got {got}")
calls = []
cssutils.replaceUrls(sheet, lambda u: (calls.append(u), 'X-' + u)[1])
text = sheet.cssText.decode()
if calls != ['logo.png', 'f.png'] or 'url(logo.png)' in text:
    failed.append(f'replaceUrls: replacer called with {calls}; sheet afterwards: {text!r}')

BASE = 'http://example.org/css/'
files = {
    BASE + 'main.css': '@import "sub/a.css";',
    BASE + 'sub/a.css': css,
}
parser = cssutils.CSSParser(fetcher=lambda url: (None, files[url]) if url in files else None)
main = parser.parseString(files[BASE + 'main.css'], href=BASE + 'main.css')
assert main.cssRules[0].hrefFound
flat = cssutils.resolveImports(main).cssText.decode()
resolved = [
    urllib.parse.urljoin(BASE + 'main.css', u.strip('"\''))
    for u in re.findall(r'url\(([^)]*)\)', flat)
]
want = [BASE + 'sub/logo.png', BASE + 'sub/f.png']
if resolved != want:
    failed.append(
        f'resolveImports: URLs expected to resolve to {want}, they resolve to {resolved}:\n    '
        + flat.replace('\n', '\n    ')
    )

if failed:
    print('VIOLATION (url() values of @variables are ignored):')
    for f in failed:
        print(' -', f)
    sys.exit(1)
print('ok')
