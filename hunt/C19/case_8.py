import sys, os; sys.path.insert(0, os.getcwd())
# C19: "replacing URLs applies the replacer exactly once to each of them and touches
# nothing else, so the identity replacer is a no-op."
# replaceUrls assigns rule.href even when the replacer returned the same string; the href
# setter of CSSImportRule throws the imported sheet away and fetches the target again.
# So the identity replacer (a) hits the network/fetcher once more per @import,
# (b) replaces rule.styleSheet, losing whatever it held, and (c) if the target can not be
# fetched this time, leaves an empty imported sheet and hrefFound == False, which changes
# what resolveImports produces afterwards.
import logging
import cssutils

cssutils.log.setLevel(logging.CRITICAL)
cssutils.log.raiseExceptions = False

BASE = 'http://example.org/css/'
files = {
    BASE + 'main.css': '@import "a.css"; m { background: url(m.png) }',
    BASE + 'a.css': 'a { background: url(i.png) }',
}
fetched = []


def fetch(url):
    fetched.append(url)
    # every target is served only once, e.g. a one-shot or rate limited source
    return (None, files.pop(url)) if url in files else None


parser = cssutils.CSSParser(fetcher=fetch)
main = parser.parseString(files[BASE + 'main.css'], href=BASE + 'main.css')
rule = main.cssRules[0]
before = (len(fetched), rule.hrefFound, rule.styleSheet, rule.styleSheet.cssText, main.cssText)

cssutils.replaceUrls(main, lambda url: url)

after = (len(fetched), rule.hrefFound, rule.styleSheet, rule.styleSheet.cssText, main.cssText)
names = ('number of fetches', '@import hrefFound', 'imported sheet object', 'imported sheet text', 'sheet text')
failed = [
    f'{n}: before {b!r}, after {a!r}'
    for n, b, a in zip(names, before, after)
    if (b is not a if n == 'imported sheet object' else b != a)
]
if failed:
    print('VIOLATION (identity replacer is not a no-op for @import rules):')
    for f in failed:
        print(' -', f)
    sys.exit(1)
print('ok')
