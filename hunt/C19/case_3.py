import sys, os; sys.path.insert(0, os.getcwd())
# C19 (flattening): "... with every relative URL rewritten so that, from the combined
# sheet's location, it resolves to the same absolute URL as it did from its original sheet."
# The re-basing code runs the URL path through os.path.normpath, which is a file system
# operation, not a URL one: a trailing '/' is dropped ("img/" -> "sub/img", "." -> "sub").
import logging
import urllib.parse
import cssutils

cssutils.log.setLevel(logging.CRITICAL)
cssutils.log.raiseExceptions = False

BASE = 'http://example.org/css/'
urls = ['img/', '.', './', 'x/../img/', '../']
files = {
    BASE + 'main.css': '@import "sub/a.css";',
    BASE + 'sub/a.css': ' '.join(f'a{i} {{ background: url({u}) }}' for i, u in enumerate(urls)),
}
parser = cssutils.CSSParser(fetcher=lambda url: (None, files[url]) if url in files else None)
main = parser.parseString(files[BASE + 'main.css'], href=BASE + 'main.css')
assert main.cssRules[0].hrefFound
flat = cssutils.resolveImports(main)
new = list(cssutils.getUrls(flat))
got = [urllib.parse.urljoin(BASE + 'main.css', u) for u in new]
want = [urllib.parse.urljoin(BASE + 'sub/a.css', u) for u in urls]
bad = [(u, w, n, g) for u, w, n, g in zip(urls, want, new, got) if w != g]
if bad or len(new) != len(urls):
    print('VIOLATION (os.path.normpath changes what the URL points to):')
    for u, w, n, g in bad:
        print(f' - url({u}) in sub/a.css resolved to {w}; rewritten to url({n}) which resolves to {g}')
    sys.exit(1)
print('ok')
