import sys, os; sys.path.insert(0, os.getcwd())
# C19: "Enumerating the URLs of a sheet yields ... every url() value exactly once";
# "replacing URLs applies the replacer exactly once to each of them";
# flattening: "every relative URL rewritten so that ... it resolves to the same absolute URL".
# url() values that are arguments of a function value (image-set(), cross-fade(),
# the fallback of var()) are skipped by getUrls/replaceUrls and so by resolveImports.
import logging
import urllib.parse
import cssutils

cssutils.log.setLevel(logging.CRITICAL)
cssutils.log.raiseExceptions = False

css = (
    'a { background: image-set(url(a.png) 1x, url(b.png) 2x);'
    '    mask: cross-fade(url(c.png), url(d.png));'
    '    cursor: var(--x, url(e.png));'
    '    list-style: url(f.png) }'
)
expected = ['a.png', 'b.png', 'c.png', 'd.png', 'e.png', 'f.png']
failed = []

sheet = cssutils.parseString(css)
got = list(cssutils.getUrls(sheet))
if got != expected:
    failed.append(f'getUrls: expected {expected}, got {got}')

calls = []
cssutils.replaceUrls(sheet, lambda u: (calls.append(u), 'X-' + u)[1])
if calls != expected:
    failed.append(f'replaceUrls: replacer expected to be called with {expected}, called with {calls}')
text = sheet.cssText.decode()
left = [u for u in expected if f'url({u})' in text]
if left:
    failed.append(f'replaceUrls: url() values left unreplaced: {left}')

# flattening
BASE = 'http://example.org/css/'
files = {
    BASE + 'main.css': '@import "sub/a.css";',
    BASE + 'sub/a.css': 'a { background: image-set(url(img/a.png) 1x); list-style: url(img/f.png) }',
}
parser = cssutils.CSSParser(fetcher=lambda url: (None, files[url]) if url in files else None)
main = parser.parseString(files[BASE + 'main.css'], href=BASE + 'main.css')
flat = cssutils.resolveImports(main).cssText.decode()
import re
resolved = [
    urllib.parse.urljoin(BASE + 'main.css', u.strip('"\''))
    for u in re.findall(r'url\(([^)]*)\)', flat)
]
for rel in ('img/a.png', 'img/f.png'):
    want = urllib.parse.urljoin(BASE + 'sub/a.css', rel)
    if want not in resolved:
        failed.append(
            f'resolveImports: url({rel}) of sub/a.css should still resolve to {want}; '
            f'URLs of the combined sheet resolve to {resolved}; combined sheet is:\n{flat}'
        )

if failed:
    print('VIOLATION (url() nested in a function value is ignored):')
    for f in failed:
        print(' -', f)
    sys.exit(1)
print('ok')
