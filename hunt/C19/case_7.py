import sys, os; sys.path.insert(0, os.getcwd())
# C19 (flattening): "Flattening a sheet's @import tree produces one sheet holding the rules
# of all reachable sheets in cascade order ... or the @import kept as it is when ...
# wrapping would be invalid".
# @namespace declarations are per sheet, but resolveImports pours the @namespace rules of
# all sheets into the one combined sheet:
#  T1  two sheets using the same prefix for different namespaces: the later declaration
#      and every rule using it are dropped (raiseExceptions False) or NamespaceErr escapes
#      from resolveImports (raiseExceptions True);
#  T2  the default namespace of one imported sheet is applied to the type selectors of all
#      other sheets ("b" = any namespace becomes "|b" = no namespace).
import logging
import cssutils

cssutils.log.setLevel(logging.CRITICAL)

BASE = 'http://example.org/css/'
T1 = {
    BASE + 'main.css': '@import "a.css"; @namespace x "urn:main"; x|m { color: red }',
    BASE + 'a.css': '@namespace x "urn:a"; x|a { color: green }',
}
T2 = {
    BASE + 'main.css': '@import "a.css"; @import "b.css";',
    BASE + 'a.css': '@namespace "urn:a"; a { color: green }',
    BASE + 'b.css': 'b { color: red }',
}


def elements(sheet, found):
    """(namespaceURI, localname) of the subject of each style rule, following kept
    @import rules"""
    for rule in sheet.cssRules:
        if rule.type == rule.STYLE_RULE:
            found.extend(sel.element for sel in rule.selectorList)
        elif rule.type == rule.MEDIA_RULE:
            elements(rule, found)
        elif rule.type == rule.IMPORT_RULE and rule.styleSheet:
            elements(rule.styleSheet, found)
    return found


failed = []
for name, files, want in (
    ('T1', T1, [('urn:a', 'a'), ('urn:main', 'm')]),
    ('T2', T2, [('urn:a', 'a'), (None, 'b')]),
):
    for raising in (False, True):
        cssutils.log.raiseExceptions = raising
        fetch = lambda url, files=files: (None, files[url]) if url in files else None
        parser = cssutils.CSSParser(fetcher=fetch)
        main = parser.parseString(files[BASE + 'main.css'], href=BASE + 'main.css')
        try:
            flat = cssutils.resolveImports(main)
            # what a consumer of the combined text sees
            text = flat.cssText.decode()
            again = cssutils.CSSParser(fetcher=fetch).parseString(text, href=BASE + 'main.css')
            got = elements(again, [])
        except Exception as e:
            failed.append(f'{name} raiseExceptions={raising}: {type(e).__name__}: {e}')
            continue
        if got != want:
            failed.append(
                f'{name} raiseExceptions={raising}: expected rules for {want}, '
                f'combined sheet has rules for {got}:\n      ' + text.replace('\n', '\n      ')
            )
cssutils.log.raiseExceptions = True

if failed:
    print('VIOLATION (namespaces of different sheets are merged into one scope):')
    for f in failed:
        print(' -', f)
    sys.exit(1)
print('ok')
