import sys, os; sys.path.insert(0, os.getcwd())
# C11 case 7: "del list[i]" on a MediaList / SelectorList created with
# readonly=True removes the item instead of raising NoModificationAllowedErr
# (every other mutator of the same objects is rejected).
import logging, xml.dom
import cssutils

cssutils.log.setLevel(logging.CRITICAL)
cssutils.log.raiseExceptions = True

failed = []

def check(name, mutate, observe):
    before = observe()
    outcome = 'no exception'
    try:
        mutate()
    except xml.dom.NoModificationAllowedErr:
        outcome = 'NoModificationAllowedErr'
    except Exception as e:                      # noqa
        outcome = '%s: %s' % (type(e).__name__, e)
    after = observe()
    if outcome != 'NoModificationAllowedErr' or after != before:
        failed.append((name, outcome, before, after))

ml = cssutils.stylesheets.MediaList('print, tv', readonly=True)
obs = lambda: (ml.mediaText, ml.length)
check('MediaList.deleteMedium (control)', lambda: ml.deleteMedium('tv'), obs)
check('MediaList[0] = ... (control)', lambda: ml.__setitem__(0, 'tty'), obs)
assert not failed, failed
def d():
    del ml[0]
check('del MediaList(readonly=True)[0]', d, obs)

sl = cssutils.css.SelectorList('a, b', readonly=True)
obs2 = lambda: (sl.selectorText, sl.length)
check('SelectorList[0] = ... (control)', lambda: sl.__setitem__(0, 'x'), obs2)
assert len(failed) <= 1, failed
def d2():
    del sl[0]
check('del SelectorList(readonly=True)[0]', d2, obs2)

for name, outcome, before, after in failed:
    print('VIOLATION: %s -> %s' % (name, outcome))
    print('  expected: NoModificationAllowedErr and unchanged state', before)
    print('  got     :', after)
if failed:
    sys.exit(1)
print('ok')
sys.exit(0)
