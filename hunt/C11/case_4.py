import sys, os; sys.path.insert(0, os.getcwd())
# C11 case 4: a DOM exception raised while parsing the *imported* sheet leaves
# CSSImportRule._setHref after href/seq have been changed (href setter, cssText
# setter) or after the rule has been inserted (CSSStyleSheet.insertRule(rule)).
import logging, xml.dom
import cssutils

cssutils.log.setLevel(logging.CRITICAL)

def fetcher(url):
    if url.endswith('bad.css'):
        return None, 'a { color: red } } x'       # syntax error in strict mode
    return None, 'b { color: blue }'

def build(text):
    # the parser is lenient by default, DOM manipulation afterwards is strict
    cssutils.log.raiseExceptions = True
    parser = cssutils.CSSParser(fetcher=fetcher)
    return parser.parseString(text, href='http://example.org/main.css')

failed = []

def snap(sheet):
    out = [sheet.cssText, len(sheet.cssRules)]
    for r in sheet.cssRules:
        out.append(r.cssText)
        if r.type == r.IMPORT_RULE:
            out.append((r.href, r.media.mediaText, r.name,
                        r.styleSheet.cssText if r.styleSheet else None))
    return out

# (a) href setter
sheet = build('@import "good.css";')
rule = sheet.cssRules[0]
before = snap(sheet)
raised = None
try:
    rule.href = 'bad.css'
except xml.dom.DOMException as e:
    raised = e
after = snap(sheet)
if raised is not None and after != before:
    failed.append(('CSSImportRule.href = "bad.css"', raised, before, after))

# (b) cssText setter
sheet = build('@import "good.css";')
rule = sheet.cssRules[0]
before = snap(sheet)
raised = None
try:
    rule.cssText = '@import "bad.css" tv "newname";'
except xml.dom.DOMException as e:
    raised = e
after = snap(sheet)
if raised is not None and after != before:
    failed.append(('CSSImportRule.cssText = \'@import "bad.css" tv "newname";\'', raised, before, after))

# (c) insertRule of a detached @import rule object
sheet = build('a { color: red }')
before = snap(sheet)
raised = None
try:
    sheet.insertRule(cssutils.css.CSSImportRule(href='bad.css'), 0)
except xml.dom.DOMException as e:
    raised = e
after = snap(sheet)
if raised is not None and after != before:
    failed.append(('CSSStyleSheet.insertRule(CSSImportRule("bad.css"), 0)', raised, before, after))

for name, raised, before, after in failed:
    print('VIOLATION: %s was rejected with %s (%s)' % (name, type(raised).__name__, raised))
    print('  expected (unchanged):', before)
    print('  got                 :', after)
if failed:
    sys.exit(1)
print('ok')
sys.exit(0)
