import sys, os; sys.path.insert(0, os.getcwd())
# C11 case 5: CSSStyleSheet.insertRule()/add() of an @variables (or @import)
# rule refreshes the sheet's variables *after* the rule has been put into
# cssRules; when that refresh raises SyntaxErr the rule stays inserted.
# The sheet is parsed with the default (lenient) parser, which keeps the
# variable "x" with an empty value; DOM calls afterwards are strict (default).
import logging, xml.dom
import cssutils

cssutils.log.setLevel(logging.CRITICAL)
cssutils.log.raiseExceptions = True          # the library default

sheet = cssutils.parseString('@variables { x: $ } a { color: red }')

def snapshot():
    return ([r.typeString for r in sheet.cssRules], len(sheet.cssRules),
            [r.variables.cssText for r in sheet.cssRules if r.type == r.VARIABLES_RULE],
            sheet.variables.keys())

failed = []
for call, f in (
    ("sheet.insertRule('@variables { z: 3 }', 1)",
     lambda: sheet.insertRule('@variables { z: 3 }', 1)),
    ("sheet.add(CSSVariablesRule(variables='z: 3'))",
     lambda: sheet.add(cssutils.css.CSSVariablesRule(variables='z: 3'))),
):
    before = snapshot()
    raised = None
    try:
        f()
    except xml.dom.DOMException as e:
        raised = e
    after = snapshot()
    if raised is not None and after != before:
        failed.append((call, raised, before, after))
        # undo for the next call
        sheet.deleteRule(1)

for name, raised, before, after in failed:
    print('VIOLATION: %s was rejected with %s (%s)' % (name, type(raised).__name__, raised))
    print('  expected (unchanged rule list):', before)
    print('  got                           :', after)
if failed:
    sys.exit(1)
print('ok')
sys.exit(0)
