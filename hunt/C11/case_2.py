import sys, os; sys.path.insert(0, os.getcwd())
# C11 case 2: insertRule(CSSRuleList) inserts the rules one by one; when a later
# rule is rejected (HierarchyRequestErr) the earlier ones stay inserted.
import logging, xml.dom
import cssutils

cssutils.log.setLevel(logging.CRITICAL)
cssutils.log.raiseExceptions = True

failed = []

def snapshot(container, sheet):
    return (sheet.cssText, [r.cssText for r in container.cssRules],
            len(container.cssRules), [r.cssText for r in sheet.cssRules])

# the list to insert: a comment (allowed anywhere) followed by an @namespace
# rule (not allowed after a style rule / not allowed inside @media at all)
source = cssutils.parseString('/*c*/ @namespace p "u";')
assert [r.type for r in source.cssRules] == [1001, 10]

# (a) style sheet
sheet = cssutils.parseString('a { color: red }')
before = snapshot(sheet, sheet)
raised = None
try:
    sheet.insertRule(source.cssRules)
except xml.dom.DOMException as e:
    raised = e
after = snapshot(sheet, sheet)
if raised is not None and after != before:
    failed.append(('CSSStyleSheet.insertRule(CSSRuleList)', raised, before, after))

# (b) @media rule
source = cssutils.parseString('/*c*/ @namespace p "u";')
sheet = cssutils.parseString('@media print { a { color: red } }')
media = sheet.cssRules[0]
before = snapshot(media, sheet)
raised = None
try:
    media.insertRule(source.cssRules)
except xml.dom.DOMException as e:
    raised = e
after = snapshot(media, sheet)
if raised is not None and after != before:
    failed.append(('CSSMediaRule.insertRule(CSSRuleList)', raised, before, after))

# (c) lenient mode (raiseExceptions False): the rejected @namespace rule is only
# logged, the following rule then hits an IndexSizeErr that *is* raised
cssutils.log.raiseExceptions = False
source = cssutils.parseString('/*1*/ @namespace p "u"; /*2*/')
sheet = cssutils.parseString('a { color: red }')
before = snapshot(sheet, sheet)
raised = None
try:
    sheet.insertRule(source.cssRules)
except xml.dom.DOMException as e:
    raised = e
after = snapshot(sheet, sheet)
if raised is not None and after != before:
    failed.append(('[raiseExceptions=False] CSSStyleSheet.insertRule(CSSRuleList)', raised, before, after))

for name, raised, before, after in failed:
    print('VIOLATION: %s was rejected with %s (%s)' % (name, type(raised).__name__, raised))
    print('  expected (unchanged):', before)
    print('  got                 :', after)
if failed:
    sys.exit(1)
print('ok')
sys.exit(0)
