import sys, os; sys.path.insert(0, os.getcwd())
# C11 case 3: MarginRule.cssText = '<margin rule with a bad declaration>' raises
# SyntaxErr but the margin keyword has already been replaced and the style has
# already been replaced by an empty declaration block.
import logging, xml.dom
import cssutils

cssutils.log.setLevel(logging.CRITICAL)
cssutils.log.raiseExceptions = True

sheet = cssutils.parseString('@page { @top-left { color: red } }')
page = sheet.cssRules[0]
margin = page.cssRules[0]

def snapshot():
    return (margin.cssText, margin.margin,
            [(p.name, p.value) for p in margin.style.getProperties(all=True)],
            page.cssText, sheet.cssText)

before = snapshot()
raised = None
try:
    margin.cssText = '@top-right { color: blue; $ }'
except xml.dom.DOMException as e:
    raised = e
after = snapshot()

if raised is not None and after != before:
    print('VIOLATION: MarginRule.cssText = ... was rejected with %s (%s)'
          % (type(raised).__name__, raised))
    print('expected (unchanged):', before)
    print('got                 :', after)
    sys.exit(1)
print('ok: raised=%r, unchanged=%r' % (raised, after == before))
sys.exit(0)
