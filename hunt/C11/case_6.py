import sys, os; sys.path.insert(0, os.getcwd())
# C11 case 6: rules created with readonly=True accept some of their documented
# attribute setters: CSSImportRule.href, MarginRule.margin and the cssRules
# setter of CSSStyleSheet / CSSMediaRule / CSSPageRule.
import logging, xml.dom
import cssutils
from cssutils import css

cssutils.log.setLevel(logging.CRITICAL)
cssutils.log.raiseExceptions = True

failed = []

def check(name, obj, mutate, observe):
    # sanity: the object really is read-only for its other mutators
    before = observe()
    outcome = 'no exception'
    try:
        mutate()
    except xml.dom.NoModificationAllowedErr:
        outcome = 'NoModificationAllowedErr'
    except Exception as e:                      # noqa
        outcome = '%s: %s' % (type(e).__name__, e)
    after = observe()
    if outcome != 'NoModificationAllowedErr' or after != before:
        failed.append((name, outcome, before, after))

imp = css.CSSImportRule(href='a.css', mediaText='print', name='n', readonly=True)
check('CSSImportRule(readonly=True).name (control)', imp,
      lambda: setattr(imp, 'name', 'other'), lambda: imp.cssText)
assert not failed, failed
check('CSSImportRule(readonly=True).href = "b.css"', imp,
      lambda: setattr(imp, 'href', 'b.css'), lambda: (imp.cssText, imp.href))

mar = css.MarginRule(margin='@top-left', style='color: red', readonly=True)
check('MarginRule(readonly=True).margin = "@top-right"', mar,
      lambda: setattr(mar, 'margin', '@top-right'), lambda: (mar.cssText, mar.margin))

other = cssutils.parseString('z { top: 0 }')
sheet = css.CSSStyleSheet(readonly=True)
check('CSSStyleSheet(readonly=True).cssRules = <other list>', sheet,
      lambda: setattr(sheet, 'cssRules', other.cssRules),
      lambda: (sheet.cssText, len(sheet.cssRules)))

other = cssutils.parseString('z { top: 0 }')
med = css.CSSMediaRule(mediaText='print', readonly=True)
check('CSSMediaRule(readonly=True).cssRules = <other list>', med,
      lambda: setattr(med, 'cssRules', other.cssRules),
      lambda: (med.cssText, len(med.cssRules)))

for name, outcome, before, after in failed:
    print('VIOLATION: %s -> %s' % (name, outcome))
    print('  expected: NoModificationAllowedErr and unchanged state', before)
    print('  got     :', after)
if failed:
    sys.exit(1)
print('ok')
sys.exit(0)
