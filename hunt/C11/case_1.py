import sys, os; sys.path.insert(0, os.getcwd())
# C11 case 1: Property.priority = '!foo' raises SyntaxErr but the priority has
# already been stored: property, declaration, rule and sheet serialise differently.
import logging, xml.dom
import cssutils

cssutils.log.setLevel(logging.CRITICAL)
cssutils.log.raiseExceptions = True

sheet = cssutils.parseString('a { color: red }')
rule = sheet.cssRules[0]
prop = rule.style.getProperty('color')

before = (prop.cssText, prop.priority, prop.literalpriority, rule.style.cssText,
          rule.style.getPropertyPriority('color'), rule.cssText, sheet.cssText)
raised = None
try:
    prop.priority = '!foo'
except xml.dom.DOMException as e:
    raised = e
after = (prop.cssText, prop.priority, prop.literalpriority, rule.style.cssText,
         rule.style.getPropertyPriority('color'), rule.cssText, sheet.cssText)

if raised is not None and after != before:
    print('VIOLATION: Property.priority = "!foo" was rejected with %s (%s)'
          % (type(raised).__name__, raised))
    print('expected (unchanged):', before)
    print('got                 :', after)
    sys.exit(1)
print('ok: raised=%r, state unchanged=%r' % (raised, after == before))
sys.exit(0)
