import sys, os; sys.path.insert(0, os.getcwd())
# C11 case 8: Value and all its subclasses accept readonly=True in the
# constructor but ignore it: cssText (and value / uri) can still be set.
import logging, xml.dom
import cssutils
from cssutils import css

cssutils.log.setLevel(logging.CRITICAL)
cssutils.log.raiseExceptions = True

failed = []

# control: the container class honours the flag
pv = css.PropertyValue('red', readonly=True)
try:
    pv.cssText = 'blue'
    print('unexpected: PropertyValue(readonly=True) is writable')
except xml.dom.NoModificationAllowedErr:
    pass

for cls, text, new in (
    (css.Value, 'red', 'blue'),
    (css.ColorValue, '#fff', '#000'),
    (css.DimensionValue, '1px', '2px'),
    (css.URIValue, 'url(a)', 'url(b)'),
    (css.CSSFunction, 'f(1)', 'g(2)'),
    (css.CSSCalc, 'calc(1px + 2px)', 'calc(3px + 4px)'),
    (css.CSSVariable, 'var(a)', 'var(b)'),
):
    v = cls(text, readonly=True)
    before = v.cssText
    outcome = 'no exception'
    try:
        v.cssText = new
    except xml.dom.NoModificationAllowedErr:
        outcome = 'NoModificationAllowedErr'
    after = v.cssText
    if outcome != 'NoModificationAllowedErr' or after != before:
        failed.append(('%s(%r, readonly=True).cssText = %r' % (cls.__name__, text, new),
                       outcome, before, after))

for name, outcome, before, after in failed:
    print('VIOLATION: %s -> %s' % (name, outcome))
    print('  expected: NoModificationAllowedErr, cssText stays %r' % before)
    print('  got     : cssText is now %r' % after)
if failed:
    sys.exit(1)
print('ok')
sys.exit(0)
