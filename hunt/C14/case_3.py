import sys, os; sys.path.insert(0, os.getcwd())
# C14 case 3: a rejected addProfile()/addProfiles() (property uses an
# undefined macro -> KeyError) still changes the registry: the name is listed,
# its shadowing macros are applied to all built-in profiles, it cannot be
# removed ("No profile 'X'") and validateWithProfile raises for known names.
import logging
import cssutils
from cssutils.profiles import Profiles

cssutils.log.setLevel(logging.FATAL)
PROBES = [('width', '1px'), ('width', 'foo'), ('color', 'nope')]


def verdicts(p):
    out = []
    for n, v in PROBES:
        try:
            out.append((n, v, p.validate(n, v), p.validateWithProfile(n, v)[0]))
        except Exception as e:
            out.append((n, v, '%s(%s)' % (type(e).__name__, e)))
    return out


bad = 0
for how in ('addProfile', 'addProfiles'):
    p = Profiles(log=cssutils.log)
    v0, k0, n0 = verdicts(p), list(p.knownNames), list(p.profiles)
    try:
        if how == 'addProfile':
            p.addProfile('X', {'x-p': '{nope}'}, {'length': 'foo'})
        else:
            p.addProfiles([('X', {'x-p': '{nope}'}, {'length': 'foo'})])
        rejected = None
    except Exception as e:
        rejected = '%s(%s)' % (type(e).__name__, e)
    try:
        p.removeProfile('X')
        rem = 'removed'
    except Exception as e:
        rem = '%s(%s)' % (type(e).__name__, e)
    v1, k1, n1 = verdicts(p), list(p.knownNames), list(p.profiles)
    if rejected and (v0, k0, n0) != (v1, k1, n1):
        bad = 1
        print('VIOLATION (C14 case 3) via %s:' % how)
        print(' the addition was rejected with %s, so nothing is registered;' % rejected)
        print(' expected: profiles, knownNames and all verdicts unchanged')
        print(' got     : profiles tail %r (was %r); removeProfile("X") -> %s' % (n1[-2:], n0[-2:], rem))
        for a, b in zip(v0, v1):
            if a != b:
                print('   verdict before %r  after %r' % (a, b))
sys.exit(bad)
