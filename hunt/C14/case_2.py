import sys, os; sys.path.insert(0, os.getcwd())
# C14 case 2: removeProfile() is not atomic.  If a remaining profile uses a
# macro of the removed profile, removeProfile raises KeyError half-way: the
# profile is gone from the list, the dependent one is listed but has lost its
# properties, cannot be removed any more and breaks validation of everything.
import logging
import cssutils
from cssutils.profiles import Profiles, NoSuchProfileException

cssutils.log.setLevel(logging.FATAL)
PROBES = [('color', 'red'), ('color', 'nope'), ('width', '1px'), ('x-p', 'big')]


def verdicts(p):
    out = []
    for n, v in PROBES:
        try:
            out.append((n, v, p.validate(n, v), p.validateWithProfile(n, v)[0]))
        except Exception as e:
            out.append((n, v, '%s(%s)' % (type(e).__name__, e)))
    return out


p = Profiles(log=cssutils.log)
v0, k0, n0 = verdicts(p), list(p.knownNames), list(p.profiles)

# "Useful as if profiles define custom macros these are used in one go"
p.addProfiles([
    ('base', {'x-b': '{mylen}'}, {'mylen': 'big|small'}),
    ('ext', {'x-p': '{mylen}'}, None),
])
assert p.validate('x-p', 'big')

err = []
for name in ('base', 'ext'):
    try:
        p.removeProfile(name)
    except Exception as e:
        err.append('removeProfile(%r) -> %s(%s)' % (name, type(e).__name__, e))

v1, k1, n1 = verdicts(p), list(p.knownNames), list(p.profiles)
if (v0, k0, n0) != (v1, k1, n1):
    print('VIOLATION (C14 case 2): add base+ext, remove base, remove ext')
    print(' expected: both removals succeed (or are rejected and change nothing) and')
    print('           verdicts / knownNames / profiles are as before the additions')
    print(' got     :', '; '.join(err) or 'no exception')
    print('   profiles   before/after tail:', n0[-2:], n1[-2:])
    print('   knownNames restored:', k0 == k1, '(extra: %r)' % sorted(set(k1) - set(k0)))
    for a, b in zip(v0, v1):
        if a != b:
            print('   verdict before %r  after %r' % (a, b))
    sys.exit(1)
print('ok')
