import sys, os; sys.path.insert(0, os.getcwd())
# C14 case 4: addProfile() expands and compiles the caller's properties dict IN
# PLACE.  Registering the same dict again (remove / re-add, or under another
# name) registers the stale compiled regexes: they ignore the macros that are
# in force now and are never re-expanded by later macro changes.
import logging
import cssutils
from cssutils.profiles import Profiles

cssutils.log.setLevel(logging.FATAL)

props = {'x-p': '{length}'}
p = Profiles(log=cssutils.log)
p.addProfile('X', props)
p.removeProfile('X')                       # add + remove: nothing should remain
p.addProfile('M', {}, {'length': 'foo'})   # shadows the built-in macro
p.addProfile('X', props)                   # the very same registration again
got = (p.validate('x-p', 'foo'), p.validate('x-p', '1px'))

# the same sequence of registrations on a fresh registry, fresh dict
q = Profiles(log=cssutils.log)
q.addProfile('M', {}, {'length': 'foo'})
q.addProfile('X', {'x-p': '{length}'})
ref = (q.validate('x-p', 'foo'), q.validate('x-p', '1px'))

if got != ref or props != {'x-p': '{length}'}:
    print('VIOLATION (C14 case 4):')
    print(" registered: M (macro length=foo), X {'x-p': '{length}'}")
    print(' expected  : (x-p:foo, x-p:1px) verdicts %r as on a fresh registry' % (ref,))
    print(' got       : %r; caller dict is now %r' % (got, props))
    sys.exit(1)
print('ok')
