import sys, os; sys.path.insert(0, os.getcwd())
# C14 case 5: the same profile name twice in ONE addProfiles() batch.  A name
# that is already registered is replaced (addProfile, addProfiles across
# calls), but inside one batch the second entry's macros are thrown away while
# replacing the first: KeyError, and the name stays listed without properties.
import logging
import cssutils
from cssutils.profiles import Profiles

cssutils.log.setLevel(logging.FATAL)

ref = Profiles(log=cssutils.log)
ref.addProfile('A', {'x-a': 'a'}, {'m1': 'x'})
ref.addProfile('A', {'x-b': '{m2}'}, {'m2': 'y'})      # replaces A
expect = (ref.profiles[-1], ref.validate('x-b', 'y'), ref.validateWithProfile('color', 'nope')[0])

p = Profiles(log=cssutils.log)
try:
    p.addProfiles([('A', {'x-a': 'a'}, {'m1': 'x'}), ('A', {'x-b': '{m2}'}, {'m2': 'y'})])
    res = 'ok'
except Exception as e:
    res = '%s(%s)' % (type(e).__name__, e)
try:
    got = (p.profiles[-1], p.validate('x-b', 'y'), p.validateWithProfile('color', 'nope')[0])
except Exception as e:
    got = '%s(%s)' % (type(e).__name__, e)

if res != 'ok' or got != expect:
    print('VIOLATION (C14 case 5):')
    print(' expected: the later entry replaces the earlier one, as with two addProfile calls:', expect)
    print(' got     : addProfiles ->', res, '; then (last profile, x-b:y, color:nope) ->', got)
    sys.exit(1)
print('ok')
