import sys, os; sys.path.insert(0, os.getcwd())
# C14 case 6: restricting defaultProfiles flips Property.valid from True to
# False for a value that a registered profile accepts.
import logging
import cssutils

cssutils.log.setLevel(logging.FATAL)
P = cssutils.profile
prop = cssutils.parseString('a { opacity: 0.5 }').cssRules[0].style.getProperty('opacity')
try:
    unrestricted = prop.valid
    P.defaultProfiles = P.CSS_LEVEL_2
    restricted = prop.valid
    reg = P.validateWithProfile('opacity', '0.5')
finally:
    P.defaultProfiles = None
if unrestricted != restricted:
    print('VIOLATION (C14 case 6):')
    print(' expected: Property.valid for "opacity: 0.5" stays %r when defaultProfiles is' % unrestricted)
    print('           restricted to CSS 2.1 (only the matching profile / flag may change)')
    print(' got     : Property.valid = %r while validateWithProfile says %r' % (restricted, reg))
    sys.exit(1)
print('ok')
