import sys, os; sys.path.insert(0, os.getcwd())
# C14 case 1: a profile name that is no longer registered (left behind in
# defaultProfiles, or the hard-wired @font-face profile) makes
# validateWithProfile raise KeyError instead of giving the verdict of the
# profiles that ARE registered.
import logging
import cssutils
from cssutils.profiles import Profiles

cssutils.log.setLevel(logging.FATAL)
bad = []

# (a) add a profile, restrict the defaults to it, remove it again
p = Profiles(log=cssutils.log)
before = p.validateWithProfile('color', 'red')[0]
p.addProfile('X', {'x-a': 'a'})
p.defaultProfiles = 'X'
during = p.validateWithProfile('color', 'red')[0]
p.removeProfile('X')
try:
    after = p.validateWithProfile('color', 'red')[0]
except Exception as e:
    after = '%s(%s)' % (type(e).__name__, e)
if not (before is True and during is True and after is True):
    bad.append(
        "(a) add X / defaultProfiles='X' / remove X: expected validateWithProfile"
        "('color','red') valid=True before, during and after; got before=%r "
        "during=%r after=%r" % (before, during, after)
    )

# (b) remove the built-in @font-face profile: CSS 2.1 still defines and
# accepts font-family, so the declaration is valid (just not "matching")
P = cssutils.profile
P.removeProfile(P.CSS3_FONT_FACE)
try:
    expect = P.validate('font-family', 'x')
    try:
        sheet = cssutils.parseString('@font-face { font-family: x }')
        got = P.validateWithProfile('font-family', 'x', [Profiles.CSS3_FONT_FACE])[0]
    except Exception as e:
        got = '%s(%s)' % (type(e).__name__, e)
    if got is not expect:
        bad.append(
            "(b) after removeProfile(CSS3_FONT_FACE): expected parsing "
            "'@font-face { font-family: x }' to work and valid=%r (CSS 2.1 "
            "accepts it); got %r" % (expect, got)
        )
finally:
    P.addProfile(
        P.CSS3_FONT_FACE,
        dict(cssutils.profiles.properties[P.CSS3_FONT_FACE]),
        dict(cssutils.profiles.macros[P.CSS3_FONTS]),
    )

if bad:
    print('VIOLATION (C14 case 1):')
    for b in bad:
        print(' -', b)
    sys.exit(1)
print('ok')
