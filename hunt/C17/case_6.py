import sys, os; sys.path.insert(0, os.getcwd())
import logging
import cssutils
from cssutils.stylesheets import MediaList, MediaQuery

cssutils.log.setLevel(logging.FATAL)
cssutils.log.raiseExceptions = False
bad = []

# Re-used MediaQuery object: "Media queries with features ... pass through",
# "appending a type already present moves it to the end", "appending to 'all' is
# rejected" -- mediaType is not reset when a new mediaText with features is set,
# so the list treats the query as the old simple type.
mq = MediaQuery('all')
mq.mediaText = '(color)'
if mq.mediaType != '':
    bad.append("MediaQuery('all') after mediaText='(color)': mediaType %r, expected ''"
               % mq.mediaType)
ml = MediaList('tv, print')
ml.appendMedium(mq)
if ml.mediaText != 'tv, print, (color)':
    bad.append("'tv, print' + appendMedium(<(color)>): expected 'tv, print, (color)', "
               "got %r" % ml.mediaText)
cssutils.log.raiseExceptions = True
try:
    ml.appendMedium('screen')
except Exception as e:
    bad.append("then appendMedium('screen') on %r is rejected: %s" % (ml.mediaText, type(e).__name__))
cssutils.log.raiseExceptions = False

mq = MediaQuery('print')
mq.mediaText = 'not screen and (color)'
ml = MediaList('print, tv')
ml.appendMedium(mq)
if ml.mediaText != 'print, tv, not screen and (color)':
    bad.append("'print, tv' + appendMedium(<not screen and (color)>): expected "
               "'print, tv, not screen and (color)', got %r" % ml.mediaText)

for b in bad:
    print("VIOLATION:", b)
sys.exit(1 if bad else 0)

