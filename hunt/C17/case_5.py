import sys, os; sys.path.insert(0, os.getcwd())
import logging
import cssutils
from cssutils.stylesheets import MediaList, MediaQuery

cssutils.log.setLevel(logging.FATAL)
cssutils.log.raiseExceptions = False
bad = []

# "A media list's text always reparses to an equal list" / a rejected edit must
# not change the list: a rejected MediaQuery.mediaText (raiseExceptions False)
# marks the query as not wellformed although its content was kept.
ml = MediaList('print, screen')
before = ml.mediaText
ml[0].mediaText = 'foo'            # not a media type: rejected
after = ml.mediaText
if after != before:
    bad.append('after the rejected ml[0].mediaText = "foo": mediaText %r, expected %r'
               % (after, before))
ml2 = MediaList(after)
if ml2.mediaText != after or len(ml2) != len(ml):
    bad.append('text %r (len %d) reparses as %r (len %d, wellformed=%s)'
               % (after, len(ml), ml2.mediaText, len(ml2), ml2.wellformed))
mq = MediaQuery('screen and (color)')
mq.mediaText = 'screen and'
if mq.mediaText != 'screen and (color)' or not mq.wellformed:
    bad.append('detached query after a rejected mediaText: %r wellformed=%s, expected '
               'the old value kept' % (mq.mediaText, mq.wellformed))

for b in bad:
    print("VIOLATION:", b)
sys.exit(1 if bad else 0)

