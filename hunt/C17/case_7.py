import sys, os; sys.path.insert(0, os.getcwd())
import logging
import cssutils
from cssutils.stylesheets import MediaList, MediaQuery

cssutils.log.setLevel(logging.FATAL)
cssutils.log.raiseExceptions = False
bad = []

# "A media list's text always reparses to an equal list", "deleting removes
# exactly that type": MediaQuery.mediaType (documented as "only if it is a
# simple MediaType") can be set on a query with features.
ml = MediaList('(color), tv')
ml[0].mediaType = 'print'
out = ml.mediaText
ml2 = MediaList(out)
if ml2.mediaText != out:
    bad.append("'(color), tv' after ml[0].mediaType = 'print': mediaText %r reparses "
               "as %r (wellformed=%s)" % (out, ml2.mediaText, ml2.wellformed))

ml = MediaList('not screen, tv')
ml[0].mediaType = 'print'          # text becomes 'not print'
ml.deleteMedium('print')           # there is no simple type print in the list
if ml.mediaText != 'not print, tv':
    bad.append("'not print, tv' after deleteMedium('print'): expected the delete to be "
               "rejected and 'not print, tv' kept, got %r" % ml.mediaText)

for b in bad:
    print("VIOLATION:", b)
sys.exit(1 if bad else 0)

