import sys, os; sys.path.insert(0, os.getcwd())
import logging
import cssutils
from cssutils.stylesheets import MediaList, MediaQuery

cssutils.log.setLevel(logging.FATAL)
cssutils.log.raiseExceptions = False
bad = []

# "A media list's text always reparses to an equal list" and "every feature,
# value and their order intact" (ident values, feature names): a hexadecimal
# escape of an ASCII character that is not a name character is resolved while
# tokenizing and the identifier is then written without any escape.
# (The same characters written as simple escapes, e.g. \, or \: are kept.)
for text in [
    'screen and (a: \\2c), print',   # ident ","
    'screen and (a: x\\29 y)',        # ident "x)y"
    'screen and (a: x\\20y)',         # ident "x y"
    'screen and (a\\29), print',      # feature "a)"
    'screen and (a: \\2d)',           # ident "-"
    'screen and (a\\3a b)',           # feature "a:b" without value
]:
    for mode in (False, True):
        cssutils.log.raiseExceptions = mode
        ml = MediaList(text)
        if not ml.wellformed:
            continue
        out = ml.mediaText
        try:
            ml2 = MediaList(out)
            again, n2 = ml2.mediaText, len(ml2)
        except Exception as e:
            again, n2 = 'rejected (%s)' % type(e).__name__, 0
        if again != out or n2 != len(ml):
            bad.append('raiseExceptions=%s: %r is accepted (%d media), serialises as %r, '
                       'which reparses as %r' % (mode, text, len(ml), out, again))
cssutils.log.raiseExceptions = False

for b in bad:
    print("VIOLATION:", b)
sys.exit(1 if bad else 0)
