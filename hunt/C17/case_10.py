import sys, os; sys.path.insert(0, os.getcwd())
import logging
import cssutils
from cssutils.stylesheets import MediaList, MediaQuery

cssutils.log.setLevel(logging.FATAL)
cssutils.log.raiseExceptions = False
bad = []

# "deleting removes exactly that type, deleting an absent type ... is rejected":
# the empty string matches the (empty) mediaType of any query with features.
cssutils.log.raiseExceptions = True
ml = MediaList('print, not all and (color), tv')
try:
    ml.deleteMedium('')
    rejected = False
except Exception:
    rejected = True
if not rejected or ml.mediaText != 'print, not all and (color), tv':
    bad.append("deleteMedium('') on 'print, not all and (color), tv': expected "
               "NotFoundErr and an unchanged list, got rejected=%s, mediaText %r"
               % (rejected, ml.mediaText))
cssutils.log.raiseExceptions = False

for b in bad:
    print("VIOLATION:", b)
sys.exit(1 if bad else 0)

