import sys, os; sys.path.insert(0, os.getcwd())
import logging
import cssutils
from cssutils.stylesheets import MediaList, MediaQuery

cssutils.log.setLevel(logging.FATAL)
cssutils.log.raiseExceptions = False
bad = []

# "A media list's text always reparses to an equal list" / "length ... values
# ... intact": an escaped character in the unit of a dimension is written back
# without its escape.
for text in [
    'screen and (a: 1\\,x), print',     # unit is "\,x"
    'screen and (a: 1\\)) and (color)',  # unit is "\)"
    'screen and (a: 1p\\ x)',            # unit is "p\ x"
    'screen and (a: 1\\.5)',             # 1 with unit ".5" becomes the number 1.5
]:
    for mode in (False, True):
        cssutils.log.raiseExceptions = mode
        ml = MediaList(text)
        if not ml.wellformed:
            continue
        out = ml.mediaText
        try:
            ml2 = MediaList(out)
            again, n2 = ml2.mediaText, len(ml2)
        except Exception as e:
            again, n2 = 'rejected: %s' % e, 0
        if again != out or n2 != len(ml) or out.replace(' ', '') != text.replace(' ', ''):
            bad.append('raiseExceptions=%s: %r is accepted, serialises as %r, which '
                       'reparses as %r' % (mode, text, out, again))
cssutils.log.raiseExceptions = False

for b in bad:
    print("VIOLATION:", b)
sys.exit(1 if bad else 0)

