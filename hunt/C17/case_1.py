import sys, os; sys.path.insert(0, os.getcwd())
import logging
import cssutils
from cssutils.stylesheets import MediaList, MediaQuery

cssutils.log.setLevel(logging.FATAL)
cssutils.log.raiseExceptions = False
bad = []

# "A list containing the media type 'all' collapses to 'all' ... a simple media
# type is kept once" -- media types are case-insensitive (appendMedium,
# deleteMedium and ml[i] = ... all compare them normalised), but the parser of
# mediaText compares the raw spelling.
for text, expected in [
    ('PRINT, print', ['print']),
    ('print, Print, screen', ['print', 'screen']),
    ('print, ALL', ['all']),
    ('ALL, print', ['all']),
    ('a\\ll, print', ['all']),       # a\ll is the identifier "all"
    ('p\\rint, print', ['print']),
]:
    ml = MediaList(text)
    got = [ml[i].mediaType.lower().replace('\\', '') for i in range(len(ml))]
    if got != expected:
        bad.append('MediaList(%r): expected the types %r, got %r (mediaText %r)'
                   % (text, expected, got, ml.mediaText))

# consequence for edits: the duplicate survives a delete
ml = MediaList('PRINT, print')
ml.deleteMedium('print')
if len(ml) != 0:
    bad.append("'PRINT, print' after deleteMedium('print'): expected no print left, "
               "got %r" % ml.mediaText)
# and "appending to 'all' is rejected" only sometimes
ml = MediaList('print, ALL')
if ml.mediaText.lower() != 'all':
    bad.append("'print, ALL' expected to collapse to 'all', mediaText is %r" % ml.mediaText)

for b in bad:
    print("VIOLATION:", b)
sys.exit(1 if bad else 0)

