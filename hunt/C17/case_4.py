import sys, os; sys.path.insert(0, os.getcwd())
import logging
import cssutils
from cssutils.stylesheets import MediaList, MediaQuery

cssutils.log.setLevel(logging.FATAL)
cssutils.log.raiseExceptions = False
bad = []

# "one malformed query invalidates the whole list" / "text always reparses to an
# equal list": with raiseExceptions False a query whose value failed to parse is
# kept, the list stays wellformed and serialises an empty value.
for text in [
    'screen and (color: rgb()), print',
    'screen and (color: rgb(1)), print',
]:
    cssutils.log.raiseExceptions = True
    try:
        MediaList(text)
        strict = 'accepted'
    except Exception:
        strict = 'rejected'
    cssutils.log.raiseExceptions = False
    ml = MediaList(text)
    if ml.wellformed:
        out = ml.mediaText
        ml2 = MediaList(out)
        if not ml2.wellformed or ml2.mediaText != out:
            bad.append('%r (%s with raiseExceptions=True) is accepted with '
                       'raiseExceptions=False: wellformed=True, %d media, mediaText %r, '
                       'which does not reparse (wellformed=%s, %r)'
                       % (text, strict, len(ml), out, ml2.wellformed, ml2.mediaText))

for b in bad:
    print("VIOLATION:", b)
sys.exit(1 if bad else 0)

