import sys, os; sys.path.insert(0, os.getcwd())
import logging
import cssutils
from cssutils.stylesheets import MediaList, MediaQuery

cssutils.log.setLevel(logging.FATAL)
cssutils.log.raiseExceptions = False
bad = []

# "length, number ... values pass through parse and serialisation with every
# feature, value and their order intact" and "A media list's text always
# reparses to an equal list" -- numbers are formatted with '%f' (6 decimals).
for text in [
    'screen and (min-width: 0.0000001px)',
    'screen and (min-resolution: 0.0000004dppx)',
    'screen and (min-width: 1.23456789px)',
    'screen and (min-width: -0.0000001px)',
]:
    ml = MediaList(text)
    out = ml.mediaText
    if out != text:
        bad.append('%r serialises as %r (value changed)' % (text, out))
    again = MediaList(out).mediaText
    if again != out:
        bad.append('text %r reparses to a different list: %r' % (out, again))

for b in bad:
    print("VIOLATION:", b)
sys.exit(1 if bad else 0)

