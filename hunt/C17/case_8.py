import sys, os; sys.path.insert(0, os.getcwd())
import logging
import cssutils
from cssutils.stylesheets import MediaList, MediaQuery

cssutils.log.setLevel(logging.FATAL)
cssutils.log.raiseExceptions = False
bad = []

# "its item count, indexing and iteration agree": indexing gives the
# MediaQuery objects, iteration gives internal wrapper items.
ml = MediaList('print, screen and (color)')
byindex = [ml[i] for i in range(len(ml))]
byiter = list(ml)
if len(byiter) != len(byindex) or any(a is not b for a, b in zip(byindex, byiter)):
    bad.append('indexing gives %r, iteration gives %r' % (byindex, byiter))
try:
    texts = [mq.mediaText for mq in ml]
except AttributeError as e:
    bad.append('[mq.mediaText for mq in ml] fails: %s (but ml[0].mediaText is %r)'
               % (e, ml[0].mediaText))
if list(reversed(ml))[::-1] != list(ml):
    bad.append('reversed(ml) (uses len + indexing) and iter(ml) give different objects')

for b in bad:
    print("VIOLATION:", b)
sys.exit(1 if bad else 0)

