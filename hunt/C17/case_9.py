import sys, os; sys.path.insert(0, os.getcwd())
import logging
import cssutils
from cssutils.stylesheets import MediaList, MediaQuery

cssutils.log.setLevel(logging.FATAL)
cssutils.log.raiseExceptions = False
bad = []

# "Media queries with features (... colour values) pass through parse and
# serialisation": function names are case-insensitive, the value production
# recognises RGB( as a colour, the colour parser then rejects it and the whole
# list is lost.
for text in ['screen and (color: RGB(1, 2, 3))', 'print, (color: Hsl(1, 2%, 3%))']:
    ml = MediaList(text)
    if not ml.wellformed or ml.mediaText.lower() != text.lower():
        bad.append('%r: expected to be kept, got wellformed=%s mediaText %r'
                   % (text, ml.wellformed, ml.mediaText))

for b in bad:
    print("VIOLATION:", b)
sys.exit(1 if bad else 0)

