import sys, os; sys.path.insert(0, os.getcwd())
# C10 case 7: setProperty(Property) stores the caller's object itself, so one
# Property can be two entries of a block (or an entry of two blocks); an
# update of "the effective entry" then changes several entries at once.
import logging
import cssutils
from cssutils.css import CSSStyleDeclaration, Property

cssutils.log.setLevel(logging.FATAL)
problems = []
for mode in (True, False):
    cssutils.log.raiseExceptions = mode
    p = Property('color', 'red')
    s = CSSStyleDeclaration()
    s.setProperty(p, replace=False)
    s.setProperty(p, replace=False)            # add duplicate
    s.setProperty('color', 'green')            # update: effective (= last) entry only
    entries = [(x.literalname, x.value, x.priority) for x in s.getProperties(all=True)]
    expected = [('color', 'red', ''), ('color', 'green', '')]
    if entries != expected:
        problems.append('raiseExceptions=%s: add, add-duplicate, update: expected entries %r; got %r'
                        % (mode, expected, entries))

    p = Property('color', 'red')
    a = CSSStyleDeclaration(); b = CSSStyleDeclaration()
    a.setProperty(p); b.setProperty(p)
    a['color'] = 'blue'
    if b['color'] != 'red':
        problems.append('raiseExceptions=%s: item assignment on block A changed block B: expected B '
                        '"color: red"; got %r' % (mode, b.cssText))
if problems:
    print('VIOLATION (case 7):')
    for p in problems:
        print(' -', p)
    sys.exit(1)
print('ok')
