import sys, os; sys.path.insert(0, os.getcwd())
# C10 case 3: setProperty(..., normalize=False) does not update the effective
# entry (last !important one, else last) but simply the last entry with that
# literal name.
import logging
import cssutils
from cssutils.css import CSSStyleDeclaration

cssutils.log.setLevel(logging.FATAL)
problems = []
for mode in (True, False):
    cssutils.log.raiseExceptions = mode
    s = CSSStyleDeclaration('color: red !important; color: blue')
    eff = s.getProperty('color', normalize=False)
    before = (eff.value, eff.priority)                     # ('red', 'important')
    s.setProperty('color', 'green', normalize=False)
    entries = [(p.literalname, p.value, p.priority) for p in s.getProperties(all=True)]
    expected = [('color', 'green', ''), ('color', 'blue', '')]
    if entries != expected:
        problems.append(
            'raiseExceptions=%s: effective entry before the update was %r; expected it to be modified '
            'in place giving %r; got %r' % (mode, before, expected, entries))
if problems:
    print('VIOLATION (case 3):')
    for p in problems:
        print(' -', p)
    sys.exit(1)
print('ok')
