import sys, os; sys.path.insert(0, os.getcwd())
# C10 case 4: any non-empty priority (e.g. the invalid "!ie") is treated like
# !important when the effective entry is chosen, so a later non-important
# entry wins over an earlier !important one.
import logging
import cssutils
from cssutils.css import CSSStyleDeclaration

cssutils.log.setLevel(logging.FATAL)
problems = []

# default parser path (parseString switches exceptions off itself)
sheet = cssutils.parseString('a { color: red !important; color: blue !ie }')
style = sheet.cssRules[0].style
entries = [(p.name, p.value, p.priority) for p in style.getProperties(all=True)]
if len(entries) == 2 and style.getPropertyValue('color') != 'red':
    problems.append(
        'parseString: entries %r; expected effective value "red" (the last !important entry); got %r, '
        'removeProperty would return %r' % (entries, style['color'], style.getPropertyValue('color')))

cssutils.log.raiseExceptions = False
s = CSSStyleDeclaration('color: red !ie; color: blue')
entries = [(p.name, p.value, p.priority) for p in s.getProperties(all=True)]
if len(entries) == 2 and s['color'] != 'blue':
    problems.append(
        'raiseExceptions=False: entries %r contain no !important entry; expected effective value "blue" '
        '(the last entry); got %r' % (entries, s['color']))

if problems:
    print('VIOLATION (case 4):')
    for p in problems:
        print(' -', p)
    sys.exit(1)
print('ok')
