import sys, os; sys.path.insert(0, os.getcwd())
# C10 case 9 (depends on how "known property" is read): a property made known
# through the public profile API has no DOM-name attribute.
import logging
import cssutils
from cssutils.css import CSSStyleDeclaration

cssutils.log.setLevel(logging.FATAL)
cssutils.profile.addProfile('hunt-c10', {'hunt-prop': 'x|y'})
problems = []
if 'hunt-prop' in cssutils.profile.knownNames:
    s = CSSStyleDeclaration()
    s['hunt-prop'] = 'x'
    try:
        got = s.huntProp
        if got != 'x':
            problems.append('s.huntProp expected "x"; got %r' % got)
    except AttributeError as e:
        problems.append('s["hunt-prop"] == %r but reading s.huntProp raised AttributeError: %s' % (s['hunt-prop'], e))
    try:
        s.huntProp = 'y'
        if s['hunt-prop'] != 'y':
            problems.append('s.huntProp = "y" did not set hunt-prop')
    except AttributeError as e:
        problems.append('s.huntProp = "y" raised AttributeError: %s' % e)
cssutils.profile.removeProfile('hunt-c10')
if problems:
    print('VIOLATION (case 9): "hunt-prop" is in cssutils.profile.knownNames, expected DOM-name access to work')
    for p in problems:
        print(' -', p)
    sys.exit(1)
print('ok')
