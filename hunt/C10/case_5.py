import sys, os; sys.path.insert(0, os.getcwd())
# C10 case 5: a variable whose value cannot be parsed is nevertheless stored
# (with an empty value); the API reports it, the serialisation "b:" is not a
# variable declaration any more (re-reading it yields no such variable).
import logging
import cssutils
from cssutils.css import CSSVariablesDeclaration

cssutils.log.setLevel(logging.FATAL)
problems = []

def listed(text):
    old = cssutils.log.raiseExceptions
    cssutils.log.raiseExceptions = False
    try:
        return CSSVariablesDeclaration(text).keys()
    finally:
        cssutils.log.raiseExceptions = old

# default parser path
sheet = cssutils.parseString('@variables { a: 1; b: {x}; c: 3 }')
v = sheet.cssRules[0].variables
if sorted(v.keys()) != sorted(listed(v.cssText)) or any(v[k] == '' for k in v.keys()):
    problems.append(
        'parseString("@variables { a: 1; b: {x}; c: 3 }"): API reports %r, serialisation %r lists %r'
        % ({k: v[k] for k in v.keys()}, v.cssText, listed(v.cssText)))

cssutils.log.raiseExceptions = False
v = CSSVariablesDeclaration('a: 1')
v.cssText = 'b: 1 !important'
if sorted(v.keys()) != sorted(listed(v.cssText)) or any(v[k] == '' for k in v.keys()):
    problems.append(
        'raiseExceptions=False, cssText = "b: 1 !important": API reports %r, serialisation %r lists %r'
        % ({k: v[k] for k in v.keys()}, v.cssText, listed(v.cssText)))

if problems:
    print('VIOLATION (case 5): expected the API map and the serialised list to name the same variables')
    for p in problems:
        print(' -', p)
    sys.exit(1)
print('ok')
