import sys, os; sys.path.insert(0, os.getcwd())
# C10 case 6: escaped delimiter characters in a variable name or value are
# written out unescaped, so the serialisation lists other variables than the
# API reports.
import logging
import cssutils
from cssutils.css import CSSVariablesDeclaration

cssutils.log.setLevel(logging.FATAL)
problems = []

def listed(text):
    old = cssutils.log.raiseExceptions
    cssutils.log.raiseExceptions = False
    try:
        v = CSSVariablesDeclaration(text)
        return {k: v[k] for k in v.keys()}
    except Exception as e:      # unparsable serialisation
        return 'unparsable (%s)' % type(e).__name__
    finally:
        cssutils.log.raiseExceptions = old

for mode in (True, False):
    cssutils.log.raiseExceptions = mode
    for text in (r'a\:b: 1',        # name is the single ident  a\:b
                 r'a: 1\;b 2',      # value: dimension "1" with unit "\;b", then 2
                 r'a: x\3B b 2'):   # value: ident "x;b" (hex escape), then 2
        try:
            v = CSSVariablesDeclaration(text)
        except Exception:
            continue               # rejected: fine
        api = {k: v[k] for k in v.keys()}
        if not api:
            continue
        out = listed(v.cssText)
        if out == 'unparsable' or not isinstance(out, dict) or sorted(out) != sorted(api):
            problems.append(
                'raiseExceptions=%s: %r -> API reports variables %r; serialisation %r lists %r'
                % (mode, text, sorted(api), v.cssText, out if not isinstance(out, dict) else sorted(out)))

if problems:
    print('VIOLATION (case 6): expected the serialisation to list exactly the variables the API reports')
    for p in problems:
        print(' -', p)
    sys.exit(1)
print('ok')
