import sys, os; sys.path.insert(0, os.getcwd())
# C10 case 1: a name given to the API with a unicode (hex) escape is stored
# under its resolved name but looked up under the raw string, so set / get /
# update / remove by the very same name do not address the same entry.
import logging
import cssutils
from cssutils.css import CSSStyleDeclaration, CSSVariablesDeclaration

cssutils.log.setLevel(logging.FATAL)
problems = []
NAME = r'\63olor'   # CSS spelling of "color"

for mode in (True, False):
    cssutils.log.raiseExceptions = mode
    s = CSSStyleDeclaration()
    s.setProperty(NAME, 'red')
    if s.length != 1:
        continue  # name not accepted at all: nothing to compare
    got = s.getPropertyValue(NAME)
    if got != 'red' or NAME not in s:
        problems.append(
            'raiseExceptions=%s: after setProperty(%r, "red") expected getPropertyValue(%r) == "red" '
            'and membership True; got %r / %r (keys=%r)' % (mode, NAME, NAME, got, NAME in s, s.keys()))
    s.setProperty(NAME, 'blue')          # must be an in-place update
    n = len(s.getProperties(all=True))
    if n != 1:
        problems.append(
            'raiseExceptions=%s: second setProperty(%r, ...) expected to update the entry in place '
            '(1 entry); got %d entries: %r' % (mode, NAME, n, s.getCssText(separator=' ')))
    r = s.removeProperty(NAME)
    if r not in ('blue',) or s.length != 0:
        problems.append(
            'raiseExceptions=%s: removeProperty(%r) expected to return "blue" and empty the block; '
            'got %r, %d name(s) left' % (mode, NAME, r, s.length))

    # same root cause in the variables block
    v = CSSVariablesDeclaration()
    v.setVariable(r'\61', '1')           # "\61" is the CSS spelling of "a"
    v.setVariable('a', '2')
    reported = v.keys()
    listed = CSSVariablesDeclaration(v.cssText).keys()
    if sorted(reported) != sorted(listed):
        problems.append(
            'raiseExceptions=%s: variables API reports %r but the serialisation %r lists %r'
            % (mode, reported, v.cssText, listed))

if problems:
    print('VIOLATION (case 1):')
    for p in problems:
        print(' -', p)
    sys.exit(1)
print('ok')
