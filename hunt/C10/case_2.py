import sys, os; sys.path.insert(0, os.getcwd())
# C10 case 2: name normalisation is not idempotent (an escaped backslash
# followed by a simple escape), so the names enumerated by keys()/item()/
# iteration are not members and cannot be read, updated or removed; in the
# variables block the API map and the serialised list drift apart.
import logging
import cssutils
from cssutils.css import CSSStyleDeclaration, CSSVariablesDeclaration

cssutils.log.setLevel(logging.FATAL)
problems = []
for mode in (True, False):
    cssutils.log.raiseExceptions = mode
    s = CSSStyleDeclaration(r'c\\olor: red')      # ident  c \\ o l o r  (legal CSS)
    for k in s.keys():
        if k not in s or s[k] != 'red':
            problems.append(
                'raiseExceptions=%s: keys() enumerates %r, expected membership True and value "red"; '
                'got membership %r, value %r' % (mode, k, k in s, s[k]))
        r = s.removeProperty(k)
        if r != 'red' or s.length != 0:
            problems.append(
                'raiseExceptions=%s: removeProperty(%r) (a name taken from keys()) expected "red" and an '
                'empty block; got %r and length %d' % (mode, k, r, s.length))

    v = CSSVariablesDeclaration(r'a\\z: 1')
    v.setVariable(r'a\\z', '2')
    v.setVariable(r'a\\z', '3')
    api = {k: v.getVariableValue(r'a\\z') for k in v.keys()}
    if '3' not in v.cssText:
        problems.append(
            'raiseExceptions=%s: variables API reports %r but the serialisation is %r'
            % (mode, api, v.cssText))
    v.removeVariable(r'a\\z')
    if v.length == 0 and v.cssText.strip():
        problems.append(
            'raiseExceptions=%s: after removeVariable the API reports no variables but the '
            'serialisation still lists %r' % (mode, v.cssText))

if problems:
    print('VIOLATION (case 2):')
    for p in problems:
        print(' -', p)
    sys.exit(1)
print('ok')
