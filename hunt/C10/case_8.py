import sys, os; sys.path.insert(0, os.getcwd())
# C10 case 8: an update does not store the value that was given: the new value
# is copied through its (lossy) serialisation, so setting the same value gives
# a different entry depending on whether the name was already present.
import logging
import cssutils
from cssutils.css import CSSStyleDeclaration

cssutils.log.setLevel(logging.FATAL)
problems = []
VALUE = '1px\\9'          # the well-known IE "\9" hack
for mode in (True, False):
    cssutils.log.raiseExceptions = mode
    fresh = CSSStyleDeclaration()
    fresh.setProperty('width', VALUE)                 # set on an empty block
    upd = CSSStyleDeclaration('width: 5px')
    upd.setProperty('width', VALUE)                   # update in place
    if fresh.length == 1 and upd['width'] != fresh['width']:
        problems.append(
            'raiseExceptions=%s: setProperty("width", %r): as a new entry the value is %r, as an update '
            'of an existing entry it is %r (expected the same)' % (mode, VALUE, fresh['width'], upd['width']))
if problems:
    print('VIOLATION (case 8):')
    for p in problems:
        print(' -', p)
    sys.exit(1)
print('ok')
