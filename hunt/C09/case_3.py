import sys, os; sys.path.insert(0, os.getcwd())
# C09: "every rule ... names its actual container as parent" / "serialising
# and reparsing" -- an @media rule can be inserted into itself (or into one of
# its descendants); the sheet then holds a cycle and cannot be serialised.
import logging
import cssutils

cssutils.log.setLevel(logging.FATAL)
bad = []
for mode in (True, False):
    cssutils.log.raiseExceptions = mode
    s = cssutils.parseString('@media all { @media print { a {x:1} } }')
    outer = s.cssRules[0]
    inner = outer.cssRules[0]
    try:
        inner.insertRule(outer)
    except Exception:
        pass
    if any(r is outer for r in inner.cssRules):
        bad.append('mode %s: outer @media accepted as child of its own child; '
                   'top-level rule parentRule=%r' % (mode, outer.parentRule))
        try:
            s.cssText
        except RecursionError:
            bad.append('mode %s: sheet.cssText raises RecursionError' % mode)
if bad:
    print('expected: the insertion is refused (HierarchyRequestErr), sheet stays a tree')
    print('got:')
    print('\n'.join(bad))
    sys.exit(1)
sys.exit(0)
