import sys, os; sys.path.insert(0, os.getcwd())
# C09: "at most one @charset and only in first place, @import rules before
# @namespace rules" -- insertRule(rule, index, inOrder=True) is documented to
# ignore `index`, but for @namespace (and @variables) the given index is used
# whenever no later rule fixes the position.
import logging
import cssutils

cssutils.log.setLevel(logging.FATAL)
R = cssutils.css.CSSRule
bad = []
for mode in (True, False):
    cssutils.log.raiseExceptions = mode
    for start, first in (('@import "a.css";', R.IMPORT_RULE), ('@charset "ascii";', R.CHARSET_RULE)):
        sheet = cssutils.parseString(start)
        try:
            sheet.insertRule('@namespace p "u";', 0, inOrder=True)
        except Exception as e:  # a refusal would be fine too
            pass
        kinds = [r.typeString for r in sheet.cssRules]
        if sheet.cssRules[0].type != first:
            bad.append('raiseExceptions=%s: %r + insertRule(@namespace, 0, inOrder=True) -> %s'
                       % (mode, start, kinds))
            cssutils.log.raiseExceptions = False
            again = [r.typeString for r in cssutils.parseString(sheet.cssText).cssRules]
            bad.append('    reparsed: %s' % again)
if bad:
    print('expected: the ordered add keeps @charset first and @import before @namespace')
    print('got:')
    print('\n'.join(bad))
    sys.exit(1)
sys.exit(0)
