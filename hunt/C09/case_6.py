import sys, os; sys.path.insert(0, os.getcwd())
# C09: "every rule ... names its actual container as parent while removed
# objects name none" -- CSSRule.parent ("The Parent Node of this CSSRule or
# None") is set once in the constructor and never maintained.
import logging
import cssutils

cssutils.log.setLevel(logging.FATAL)
bad = []
for mode in (True, False):
    cssutils.log.raiseExceptions = mode
    s = cssutils.parseString('@media all { a {x:1} b {y:1} }')
    m = s.cssRules[0]
    a, b = m.cssRules
    if a.parent is not m:
        bad.append('mode %s: parsed nested rule has parent %r' % (mode, a.parent))
    m.deleteRule(a)
    if a.parentRule is None and a.parent is not None:
        bad.append('mode %s: deleted rule has parentRule None but parent %r' % (mode, a.parent))
    m.insertRule('c {z:1}')
    c = m.cssRules[-1]
    if c.parentRule is m and c.parent is not m:
        bad.append('mode %s: inserted rule has parentRule @media but parent %r' % (mode, c.parent))
    m.cssText = '@media print { d {w:1} }'
    if b.parentRule is None and b.parent is not None:
        bad.append('mode %s: rule replaced by @media.cssText has parentRule None but parent %r'
                   % (mode, b.parent))
if bad:
    print('expected: rule.parent follows the container like rule.parentRule does')
    print('got:')
    print('\n'.join(bad))
    sys.exit(1)
sys.exit(0)
