import sys, os; sys.path.insert(0, os.getcwd())
# C09: "nested rule lists hold only the rule kinds allowed there" --
# CSSMediaRule.insertRule()/add() accepts an @variables rule although the
# parser drops it inside @media.
import logging
import cssutils

cssutils.log.setLevel(logging.FATAL)
bad = []
for mode in (True, False):
    cssutils.log.raiseExceptions = mode
    for what in ('text', 'object'):
        s = cssutils.parseString('@media all { a {x:1} }')
        m = s.cssRules[0]
        rule = '@variables { c: 1 }' if what == 'text' else cssutils.css.CSSVariablesRule(variables='c: 1')
        try:
            m.add(rule)
        except Exception:
            pass
        kinds = [r.typeString for r in m.cssRules]
        if 'VARIABLES_RULE' in kinds:
            bad.append('mode %s, %s: @media now holds %s' % (mode, what, kinds))
# what the parser does with the same nesting
cssutils.log.raiseExceptions = False
parsed = cssutils.parseString('@media all { a {x:1} @variables { c: 1 } }')
parserkinds = [r.typeString for r in parsed.cssRules[0].cssRules]
if bad and 'VARIABLES_RULE' not in parserkinds:
    print('expected: @variables refused inside @media, as the parser does '
          '(it keeps only %s)' % parserkinds)
    print('got:')
    print('\n'.join(bad))
    sys.exit(1)
sys.exit(0)
