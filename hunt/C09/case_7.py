import sys, os; sys.path.insert(0, os.getcwd())
# C09: "delete ... removed objects name none" -- the sheet (and @media/@page)
# route cssRules.append/extend/__delitem__ to insertRule/deleteRule, but
# __delitem__ is set on the list *instance*, which Python ignores for
# ``del cssRules[i]``: the rule is removed by plain list deletion.
import logging
import cssutils

cssutils.log.setLevel(logging.FATAL)
bad = []
for mode in (True, False):
    cssutils.log.raiseExceptions = mode
    s = cssutils.parseString('@namespace p "u"; p|a {x:1} @media all { b {y:1} }')
    ns, style, m = s.cssRules
    nested = m.cssRules[0]
    del m.cssRules[0]
    if len(m.cssRules) == 0 and nested.parentRule is not None:
        bad.append('mode %s: rule removed with "del media.cssRules[0]" still has parentRule %r'
                   % (mode, nested.parentRule))
    del s.cssRules[2]
    if len(s.cssRules) == 2 and m.parentStyleSheet is not None:
        bad.append('mode %s: rule removed with "del sheet.cssRules[2]" still names its sheet' % mode)
    try:
        del s.cssRules[0]  # deleteRule(0) refuses: the namespace is in use
    except Exception:
        pass
    if len(s.cssRules) == 1:
        bad.append('mode %s: used @namespace rule removed, sheet is now %r; the rule still names '
                   'the sheet: %s' % (mode, s.cssText, ns.parentStyleSheet is s))
if bad:
    print('expected: del cssRules[i] behaves like deleteRule(i) (detaches, checks) or is refused')
    print('got:')
    print('\n'.join(bad))
    sys.exit(1)
sys.exit(0)
