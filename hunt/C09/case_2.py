import sys, os; sys.path.insert(0, os.getcwd())
# C09: "every rule ... reachable from the sheet names its actual container as
# parent while removed objects name none" -- insertRule() accepts a rule object
# that already sits in a rule list and does not take it out of that list.
import logging
import cssutils

cssutils.log.setLevel(logging.FATAL)
bad = []
for mode in (True, False):
    cssutils.log.raiseExceptions = mode
    # (a) from one sheet into another
    s1 = cssutils.parseString('a {x:1}')
    s2 = cssutils.parseString('b {y:1}')
    rule = s1.cssRules[0]
    s2.insertRule(rule)
    if any(r is rule for r in s1.cssRules) and rule.parentStyleSheet is not s1:
        bad.append('mode %s (a): rule still listed in sheet 1 but names sheet 2 as parent' % mode)
    # (b) into the same sheet a second time, then delete one of the two entries
    s = cssutils.parseString('a {x:1}')
    rule = s.cssRules[0]
    s.insertRule(rule)
    if len(s.cssRules) == 2 and s.cssRules[0] is s.cssRules[1]:
        bad.append('mode %s (b): same object listed twice' % mode)
        s.deleteRule(0)
        if len(s.cssRules) == 1 and s.cssRules[0].parentStyleSheet is not s:
            bad.append('mode %s (b): after deleteRule(0) the remaining entry names %r as sheet'
                       % (mode, s.cssRules[0].parentStyleSheet))
    # (c) from an @media rule up to its sheet
    s = cssutils.parseString('@media all { a {x:1} }')
    m = s.cssRules[0]
    rule = m.cssRules[0]
    s.insertRule(rule)
    if any(r is rule for r in m.cssRules) and rule.parentRule is not m:
        bad.append('mode %s (c): rule still listed in @media but parentRule is %r' % (mode, rule.parentRule))
    # (d) from the sheet down into an @media rule
    s = cssutils.parseString('a {x:1} @media all { b {y:1} }')
    rule, m = s.cssRules[0], s.cssRules[1]
    m.insertRule(rule)
    if any(r is rule for r in s.cssRules) and rule.parentRule is not None:
        bad.append('mode %s (d): top-level rule of the sheet names %r as parentRule' % (mode, rule.parentRule))
if bad:
    print('expected: every listed rule names the list owner as parent (move or refuse)')
    print('got:')
    print('\n'.join(bad))
    sys.exit(1)
sys.exit(0)
