import sys, os; sys.path.insert(0, os.getcwd())
# C09: "every rule, declaration block and property reachable from the sheet
# names its actual container as parent while removed objects name none" --
# replacing the text of a style, @page, @font-face or margin rule installs a
# new declaration block; the replaced block still names the rule as parentRule.
import logging
import cssutils

cssutils.log.setLevel(logging.FATAL)
bad = []
for mode in (True, False):
    cssutils.log.raiseExceptions = mode
    s = cssutils.parseString(
        'a {left:1px} @page {margin:0; @top-left {color:red}} @font-face {font-family:x}')
    style, page, face = s.cssRules
    margin = page.cssRules[0]
    for name, rule, text in (
        ('margin rule', margin, '@top-left {color:green}'),
        ('style rule', style, 'b {top:2px}'),
        ('@page rule', page, '@page :first {margin:1px}'),
        ('@font-face rule', face, '@font-face {font-family:y}'),
    ):
        old = rule.style
        rule.cssText = text
        if rule.style is not old and old.parentRule is not None:
            bad.append('mode %s, %s: replaced declaration block %r still has parentRule %r'
                       % (mode, name, old.cssText, old.parentRule))
if bad:
    print('expected: a replaced declaration block has parentRule None')
    print('got:')
    print('\n'.join(bad))
    sys.exit(1)
sys.exit(0)
