import sys, os; sys.path.insert(0, os.getcwd())
# C09: "serialising and reparsing the edited sheet never loses a rule to an
# ordering error" -- insertRule() lets a style/@media/@page/@font-face rule go
# in front of an @variables rule, an order the parser refuses
# ("CSSVariablesRule not allowed here").  Visible when @variables rules are
# serialised (prefs.resolveVariables = False).
import logging
import cssutils

cssutils.log.setLevel(logging.FATAL)
bad = []
old = cssutils.ser.prefs.resolveVariables
cssutils.ser.prefs.resolveVariables = False
try:
    for mode in (True, False):
        cssutils.log.raiseExceptions = mode
        s = cssutils.parseString('@variables { c: red }')
        try:
            s.insertRule('a { color: var(c) }', 0)
        except Exception:
            pass
        kinds = [r.typeString for r in s.cssRules]
        cssutils.log.raiseExceptions = False
        again = [r.typeString for r in cssutils.parseString(s.cssText).cssRules]
        if kinds != again:
            bad.append('mode %s: sheet %s serialises to %r which reparses as %s'
                       % (mode, kinds, s.cssText, again))
finally:
    cssutils.ser.prefs.resolveVariables = old
if bad:
    print('expected: insertion refused (HierarchyRequestErr) or reparse keeps every rule')
    print('got:')
    print('\n'.join(bad))
    sys.exit(1)
sys.exit(0)
