import sys, os; sys.path.insert(0, os.getcwd())
# C08: "The encoding used to decode a stylesheet or an imported sheet is chosen
# by a fixed precedence - explicit override, then transport (HTTP) charset, then
# BOM/@charset in the content, then the referring sheet's encoding, then UTF-8".
# A sheet given as bytes to parseString()/parseFile() whose encoding comes from
# its BOM (no @charset rule) is decoded correctly, but the detected encoding is
# forgotten: a sheet it imports that carries no encoding information of its own
# is decoded as UTF-8 instead of with the referring sheet's encoding.  The very
# same bytes read through parseUrl() hand the encoding down as stated.
import logging
import cssutils

cssutils.log.setLevel(logging.FATAL)
cssutils.log.raiseExceptions = False

parent = '@import "child.css"; a { content: "ä" }'.encode('utf-16')   # with BOM
child = 'b { content: "ö" }'.encode('utf-16-le')                      # no BOM, no @charset

def fetcher(url):
    if url.endswith('child.css'):
        return None, child          # no HTTP charset
    if url.endswith('parent.css'):
        return None, parent
    return None

def describe(sheet):
    imp = list(sheet.cssRules.rulesOfType(cssutils.css.CSSRule.IMPORT_RULE))[0]
    child = imp.styleSheet
    styles = [r.style['content'] for r in child.cssRules if r.type == r.STYLE_RULE]
    return sheet.cssRules[-1].style['content'], imp.hrefFound, child.encoding, styles

parser = cssutils.CSSParser(fetcher=fetcher)
viaString = describe(parser.parseString(parent, href='http://example.com/parent.css'))
viaUrl = describe(parser.parseUrl('http://example.com/parent.css'))

# the parent itself is decoded from its BOM both ways
assert viaString[0] == viaUrl[0] == '"ä"', (viaString, viaUrl)

if viaString[1:] != viaUrl[1:] or viaString[3] != ['"\xf6"']:
    print("VIOLATION (C08, referring sheet's encoding not used for the import)")
    print('parent: UTF-16 with BOM, no @charset; child: UTF-16 without BOM/@charset/HTTP charset')
    print('expected: child decoded with the referring sheet\'s encoding (utf-16), content ["\xf6"]')
    print('parseUrl(parent)           -> import found=%r, child encoding=%r, content=%r' % viaUrl[1:])
    print('parseString(parent bytes)  -> import found=%r, child encoding=%r, content=%r' % viaString[1:])
    sys.exit(1)
print('ok')
sys.exit(0)
