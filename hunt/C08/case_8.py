import sys, os; sys.path.insert(0, os.getcwd())
# C08: "decoding plus reparsing gives back the same DOM" / "never dropped".
# (Not specific to a non-UTF-8 encoding: it already fails for UTF-8.)
# The tokenizer resolves the hex escape of a backslash (`\5c `) to a bare
# backslash in the DOM, but the serializer writes that backslash back unescaped.
# In the serialisation it then starts a *new* escape with whatever follows
# (`\5c 41` -> `\41` -> "A") or - in a
# comment, where the tokenizer resolves escapes too - forges the end of comment.
# The same happens for other hex-escaped ASCII characters with a syntactic
# meaning in identifiers (`\a`, `\3b`, `\7d`, `\2c`, `\5d`, `\3a`, `\28`).
import logging
import cssutils

cssutils.log.setLevel(logging.FATAL)
cssutils.log.raiseExceptions = False

bad = []
for src in (r'a { content: "\5c 41" }',        # backslash + "41"
            r'a { content: "a\5c b" }',         # backslash + "b"  -> \b = U+000B
            r'a { font-family: \5c 41 }',        # identifier
            r'/* \5c 2a/ */ a { color: red }',   # comment containing \2a/
            r'a { m\argin: 0; color: red }',     # \a = line feed inside an identifier
            r'a { font-family: p\3b q }',        # \3b = ";"
            ):
    sheet = cssutils.parseString(src)
    data = sheet.cssText
    again = cssutils.parseString(data.decode(sheet.encoding))
    if again.cssText != data:
        bad.append((src, data, again.cssText))

if bad:
    print('VIOLATION (C08, same DOM after decoding and reparsing; encoding utf-8)')
    for src, data, data2 in bad:
        print('source      : %s' % src)
        print(' serialised : %r' % data)
        print(' reparsed   : %r' % data2)
    sys.exit(1)
print('ok')
sys.exit(0)
