import sys, os; sys.path.insert(0, os.getcwd())
# C08: "its serialisation is a byte string decodable in that encoding, and
# decoding plus reparsing gives back the same DOM: characters the encoding
# cannot represent are written as CSS escapes, never dropped".
# The serializer relies on the codec *raising* for characters it cannot
# represent.  Several Python codecs do not raise but silently substitute a
# different character (YEN SIGN -> backslash in shift_jis/euc_jp, CENT SIGN ->
# FULLWIDTH CENT SIGN in cp932, OVERLINE -> MACRON in cp950) or write bytes
# their own decoder rejects (HANGUL FILLER in euc_kr).  These characters are not
# escaped, so the DOM changes (or the bytes are undecodable).
import logging
import cssutils

cssutils.log.setLevel(logging.FATAL)
cssutils.log.raiseExceptions = False

bad = []
for enc, ch in (('shift_jis', '¥'), ('euc_jp', '¥'), ('cp932', '¢'),
                ('cp950', '‾'), ('euc_kr', 'ㅤ')):
    sheet = cssutils.parseString('a { content: "%snote" }' % ch)
    expected = sheet.cssRules[0].style['content']
    sheet.encoding = enc
    if sheet.encoding != enc:
        continue  # encoding not available
    data = sheet.cssText
    try:
        text = data.decode(sheet.encoding)
    except UnicodeError as e:
        bad.append((enc, ch, data, 'serialisation not decodable in %s: %s' % (enc, e)))
        continue
    again = cssutils.parseString(text)
    got = again.cssRules[1].style['content']
    if got != expected:
        bad.append((enc, ch, data, 'content %r became %r' % (expected, got)))

if bad:
    print('VIOLATION (C08, unrepresentable characters must be written as escapes)')
    for enc, ch, data, what in bad:
        print('%-9s U+%04X  %r\n          -> %s' % (enc, ord(ch), data, what))
    sys.exit(1)
print('ok')
sys.exit(0)
