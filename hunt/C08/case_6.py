import sys, os; sys.path.insert(0, os.getcwd())
# C08: precedence "... then BOM/@charset in the content, then the referring
# sheet's encoding, then UTF-8".
# A sheet in UTF-16/UTF-32 without BOM that starts with an @charset rule (which
# is what cssutils itself writes for encoding "utf-16-le" etc.) is recognised by
# the codec (CSS 2.1 4.4 table: "40 00 63 00 68 00 ...") and parseString(bytes)
# decodes it properly.  Read through parseUrl() or as an @import, the detection
# result is thrown away because it is flagged "not explicit": the referring
# sheet's encoding or UTF-8 is used instead, although the content has an
# @charset rule.
import logging
import cssutils

cssutils.log.setLevel(logging.FATAL)
cssutils.log.raiseExceptions = False

bad = []
for enc in ('utf-16-le', 'utf-16-be', 'utf-32-le', 'utf-32-be'):
    # produce the file with cssutils itself
    src = cssutils.parseString('a { content: "ä" }')
    src.encoding = enc
    data = src.cssText

    def fetcher(url, data=data):
        return None, data        # no HTTP charset

    parser = cssutils.CSSParser(fetcher=fetcher)
    direct = parser.parseString(data)
    assert direct.encoding == enc and direct.cssRules[1].style['content'] == '"ä"'

    viaUrl = parser.parseUrl('http://example.com/x.css')
    got = None
    if viaUrl is not None:
        got = (viaUrl.encoding, viaUrl.cssText)
    if viaUrl is None or viaUrl.cssText != data:
        bad.append((enc, 'parseUrl', got))

    top = parser.parseString('@charset "latin-1"; @import "x.css";',
                             href='http://example.com/top.css')
    imp = top.cssRules[1]
    got = (imp.hrefFound, imp.styleSheet.encoding, imp.styleSheet.cssText)
    if not imp.hrefFound or imp.styleSheet.cssText != data:
        bad.append((enc, '@import', got))

if bad:
    print('VIOLATION (C08, @charset in the content ranks before referrer/UTF-8)')
    print('content: cssutils\' own serialisation of  a { content: "\xe4" }  with @charset "<enc>" (no BOM)')
    print('expected: decoded as <enc> like parseString(bytes) does')
    for enc, how, got in bad:
        print('%-9s via %-8s -> %r' % (enc, how, got))
    sys.exit(1)
print('ok')
sys.exit(0)
