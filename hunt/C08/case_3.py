import sys, os; sys.path.insert(0, os.getcwd())
# C08: "A sheet's reported encoding always equals its @charset rule (UTF-8 if
# there is none), its serialisation is a byte string decodable in that encoding,
# and decoding plus reparsing gives back the same DOM".
# `@CHARSET "latin-1";` (or `@charset<TAB>"latin-1";`, `@charset"latin-1";`) is
# not an @charset rule: the sheet gets a CSSUnknownRule and reports utf-8.  But
# the unknown rule is serialised with a lower-cased keyword and one space, i.e.
# as the exact byte sequence `@charset "latin-1";` at the very start of the
# output, while the rest of the output is encoded in UTF-8.
import logging
import cssutils

cssutils.log.setLevel(logging.FATAL)
cssutils.log.raiseExceptions = False

bad = []
for src in ('@CHARSET "latin-1"; a { content: "ä" }',
            '@charset\t"latin-1"; a { content: "ä" }',
            '@charset"latin-1"; a { content: "ä" }'):
    sheet = cssutils.parseString(src)
    reported = sheet.encoding
    first = type(sheet.cssRules[0]).__name__
    data = sheet.cssText
    # the serialisation as a consumer sees it
    frombytes = cssutils.parseString(data)
    # decoding in the reported encoding plus reparsing
    fromtext = cssutils.parseString(data.decode(reported))
    problems = []
    if data.startswith(b'@charset "') and not data.startswith(
            b'@charset "%s"' % reported.encode()):
        problems.append('reported encoding %r but the serialisation starts with %r'
                        % (reported, data.split(b'\n')[0]))
    if fromtext.encoding != reported or type(fromtext.cssRules[0]).__name__ != first:
        problems.append('reparsed text: encoding %r, first rule %s (was %r, %s)'
                        % (fromtext.encoding, type(fromtext.cssRules[0]).__name__,
                           reported, first))
    v1 = sheet.cssRules[1].style['content']
    v2 = frombytes.cssRules[1].style['content']
    if v1 != v2:
        problems.append('reparsed bytes: content %r became %r' % (v1, v2))
    if problems:
        bad.append((src, data, problems))

if bad:
    print('VIOLATION (C08, reported encoding == @charset rule / same DOM after reparse)')
    for src, data, problems in bad:
        print('source     : %r' % src)
        print('serialised : %r' % data)
        for p in problems:
            print('   -', p)
    sys.exit(1)
print('ok')
sys.exit(0)
