import sys, os; sys.path.insert(0, os.getcwd())
# C08: "decoding plus reparsing gives back the same DOM: characters the encoding
# cannot represent are written as CSS escapes".
# cp864 (IBM Arabic, aliases "ibm864", "864") cannot encode "%" (0x25 is ARABIC
# PERCENT SIGN there).  CSSCharsetRule accepts the encoding (it only tries to
# encode "a"), and the serializer then escapes every "%" as `\25 `.  An escape
# can stand for a character of an identifier or string but not for the "%" of a
# PERCENTAGE token: `50\25 ` is a DIMENSION with unit "%", so the value changes
# its type on reparse.
import logging
import cssutils

cssutils.log.setLevel(logging.FATAL)
cssutils.log.raiseExceptions = False

sheet = cssutils.parseString('a { width: 50% }')
sheet.encoding = 'cp864'
if sheet.encoding != 'cp864':
    print('ok (cp864 not accepted as encoding)')
    sys.exit(0)
before = [(v.type, v.cssText) for v in sheet.cssRules[1].style.getProperty('width').propertyValue]
data = sheet.cssText
again = cssutils.parseString(data.decode(sheet.encoding))
prop = again.cssRules[1].style.getProperty('width')
after = [(v.type, v.cssText) for v in prop.propertyValue] if prop else None

if before != after:
    print('VIOLATION (C08, same DOM after decoding and reparsing)')
    print('serialised in cp864 :', data)
    print('expected value      :', before)
    print('reparsed value      :', after)
    sys.exit(1)
print('ok')
sys.exit(0)
