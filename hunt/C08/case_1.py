import sys, os; sys.path.insert(0, os.getcwd())
# C08: "characters the encoding cannot represent are written as CSS escapes,
# never dropped" and "decoding plus reparsing gives back the same DOM".
# A character that is itself escaped with a literal backslash in the source
# (`\ä` - a legal CSS escape meaning "ä") stays `\ä` in the DOM.  When the sheet
# is serialised in an encoding that cannot represent "ä", the error handler
# replaces only the "ä" and produces `\` + `\E4 ` = `\\E4 `: an escaped
# backslash followed by the letters "E4".  The character is lost.
import logging
import cssutils

cssutils.log.setLevel(logging.FATAL)
cssutils.log.raiseExceptions = False

src = 'a\\ä { content: "\\ä"; font-family: \\ä }'   # a\ä { content: "\ä"; font-family: \ä }
sheet = cssutils.parseString(src)
rule = sheet.cssRules[0]
before = (rule.selectorText, rule.style['content'], rule.style['font-family'])

sheet.encoding = 'ascii'
data = sheet.cssText                       # must not raise
text = data.decode(sheet.encoding)         # must be decodable
again = cssutils.parseString(text)
rule2 = again.cssRules[1]
after = (rule2.selectorText, rule2.style['content'], rule2.style['font-family'])

# compare the two DOMs in an encoding-independent way
sheet.encoding = None
again.encoding = None
ok = sheet.cssText == again.cssText

if not ok:
    print('VIOLATION (C08, escape of unencodable characters / same DOM after reparse)')
    print('source            :', src)
    print('ascii serialised  :', data)
    print('expected DOM      :', before, ' (utf-8 text %r)' % sheet.cssText)
    print('reparsed DOM      :', after, ' (utf-8 text %r)' % again.cssText)
    print('"\\\\E4 " is an escaped backslash followed by "E4", the character U+00E4 is gone')
    sys.exit(1)
print('ok')
sys.exit(0)
