import sys, os; sys.path.insert(0, os.getcwd())
# C08: "decoding plus reparsing gives back the same DOM: characters the encoding
# cannot represent are written as CSS escapes".
# The escape written for an unencodable character in the keyword of an unknown
# at-rule is not resolved again on reparse (the tokenizer does not unescape
# ATKEYWORD tokens), so the reparsed rule has a different atkeyword.
import logging
import cssutils

cssutils.log.setLevel(logging.FATAL)
cssutils.log.raiseExceptions = False

sheet = cssutils.parseString('@fööt { a: b }')
kw1 = sheet.cssRules[0].atkeyword

sheet.encoding = 'ascii'
data = sheet.cssText
again = cssutils.parseString(data.decode(sheet.encoding))
kw2 = again.cssRules[1].atkeyword

sheet.encoding = None
again.encoding = None
if kw1 != kw2 or sheet.cssText != again.cssText:
    print('VIOLATION (C08, same DOM after decoding and reparsing)')
    print('ascii serialised    :', data)
    print('expected atkeyword  : %r   utf-8 text %r' % (kw1, sheet.cssText))
    print('reparsed atkeyword  : %r   utf-8 text %r' % (kw2, again.cssText))
    sys.exit(1)
print('ok')
sys.exit(0)
