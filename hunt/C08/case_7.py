import sys, os; sys.path.insert(0, os.getcwd())
# C08: precedence "... then BOM/@charset in the content, then the referring
# sheet's encoding, then UTF-8" together with "A sheet's reported encoding
# always equals its @charset rule".
# What counts as "the @charset rule of the content" differs between the byte
# decoder (cssutils.codec: exactly `@charset "NAME"`) and the DOM parser
# (CSSCharsetRule: also single quotes, and escapes inside the string).
# `@charset 'latin-1';` is taken by the DOM as the sheet's @charset rule - the
# sheet reports latin-1 - but it is ignored when the bytes are decoded: UTF-8,
# which ranks below the @charset of the content, is used instead.
import logging
import cssutils

cssutils.log.setLevel(logging.FATAL)
cssutils.log.raiseExceptions = False

problems = []

# latin-1 bytes, declared (and by the DOM accepted) as latin-1
data = "@charset 'latin-1'; a { content: '\xe4' }".encode('latin-1')
dom = cssutils.parseString(data.decode('latin-1'))     # the same text, already decoded
try:
    sheet = cssutils.parseString(data)
    value = sheet.cssRules[-1].style['content']
    if value != '"\xe4"':
        problems.append((data, 'content is %r, expected \'"\xe4"\'' % value))
except UnicodeDecodeError as e:
    if dom.encoding == 'latin-1':
        problems.append((data, 'the sheet has an @charset rule (reported encoding %r) '
                               'but the bytes were decoded as UTF-8:\n      %s'
                               % (dom.encoding, e)))

# an imported sheet: same thing, the import is lost
parser = cssutils.CSSParser(fetcher=lambda url: (None, data))
top = parser.parseString('@import "x.css";', href='http://example.com/top.css')
imp = top.cssRules[0]
if dom.encoding == 'latin-1' and not imp.hrefFound:
    problems.append((data, 'as @import (no override, no HTTP charset): sheet could not be read'))

if problems:
    print('VIOLATION (C08, @charset of the content not used for decoding)')
    for data, what in problems:
        print('%r\n   -> %s' % (data, what))
    sys.exit(1)
print('ok')
sys.exit(0)
