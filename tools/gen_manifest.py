#!/venv/bin/python
"""Regenerates /verif/MANIFEST.json from the table below (keeps it valid at all times)."""
import json
import os

HERE = os.path.dirname(os.path.dirname(os.path.abspath(__file__)))

NA = {
    "C02": "pure function text -> DOM over inputs and two static parser flags; no schedule, fault, history or second party in any clause; deciding it is grammar-based generation against a structural oracle, not simulation",
    "C04": "pure function of a (damaged or truncated) text; 'truncation' is an input transformation, not a fault of a seam the code reads through (the same torn documents are exercised as a fetch fault in C01's world, without a C04 claim)",
    "C05": "the tokenizer is a pure generator over one string; its only cross-call state (the push-back queue) is covered by C12",
    "C06": "output is a pure function of (DOM, preference assignment): a combinatorial configuration sweep with a metamorphic oracle; its single stateful clause (restoring defaults restores the default bytes) is exercised inside C12's battery, without a C06 claim",
    "C13": "the verdict is a pure function of (name, value, profiles); the history-dependent part of validation is C14",
    "C18": "pure denotational arithmetic of value serialisation; no schedule, fault or history",
    "C20": "a finite decision table plus pure sniffers; exhaustive enumeration against an independent decision procedure is the right tool (table testing / model checking family), and the one I/O clause (stream position restored) is deterministic in the input",
}

CHECKS = {
    "C07": dict(
        text="Seeded search over arrival schedules (chunk cuts biased to BOM / @charset / multi-byte landmarks, read sizes, short and empty reads, final timing) of a producer -> pipe -> stateful css-codec consumer world, judged step by step against the one-shot codec call (refinement), a CSS 2.1 4.4 reference detector and arrival monotonicity; plus the enumerated single-cut and <=4-byte-prefix sub-sweeps. Sampling, not proof: a clean batch is evidence.",
        note="Trusts the stdlib codecs as the one-shot/underlying reference; texts without U+0000/U+FEFF; three recorded known findings (stream classes have no end-of-stream call; detectencoding_unicode final=None is pinned by the suite).",
        technique="deterministic simulation: seeded arrival-schedule search with short/empty-read fault injection against a one-shot reference model",
        ref="DESIGN.md 5 C07",
    ),
}

CHECKS["C10"] = dict(
    text="Seeded operation histories (set / add-duplicate / remove / item assignment / deletion / attribute-style access / text replacement, both error modes, rejected arguments as injected faults) on a declaration block in lock step with an executable ordered-multimap-with-cascade reference model, every accessor compared after every step; plus the enumerated sweep of every known property name through DOM-name access and the same map discipline for variables blocks.",
    note="Acceptability of a (name, value, priority) triple is taken from a stand-alone Property; value pool restricted to values whose serialisation is a fixpoint; order among distinct names is only required to be self-consistent. Sampling, not proof.",
    technique="deterministic simulation: seeded operation histories in lock step with an executable reference model, fork-isolated runs, ddmin-shrunk replays",
    ref="DESIGN.md 5 C10",
)
CHECKS["C12"] = dict(
    text="The whole process is the system under simulation: each run is a pristine forked interpreter driven through a seeded prefix of library calls with injected faults (undecodable bytes, fetcher returning nothing / raising / re-entering the library, missing files, raising parsers, rejected edits); the library-wide modes are compared before/after every parse-family call, a fixed probe battery is compared with the output it gave in the pristine process, reused parser objects with fresh ones, re-entrant fetchers with plain ones.",
    note="Black-box: only public results, exception classes and log levels are compared (never log texts); white-box reads of prodparser.savedTokens / tokenizer push-back are reach statistics only. Thread interleavings are out of scope (documented thread-unsafe). Sampling, not proof.",
    technique="deterministic simulation with fault injection: seeded call/fault histories in fork-isolated processes, state-restoration invariants and differential probe battery against a pristine baseline",
    ref="DESIGN.md 5 C12",
)

CHECKS["C09"] = dict(
    text="Seeded edit histories (insert at every index, ordered add, delete, replace sheet / rule text, set encoding, namespace mapping edits, rule objects moved between containers; all ten rule kinds; sheets and nested @media/@page lists; accepted and rejected; both error modes) with the structural invariants I1-I5 (one @charset in first place, @import < @namespace < body, allowed nested kinds, parent links of reachable and removed objects, restart = serialise/reparse keeps every rule) evaluated on the real DOM after every step.",
    note="State invariants only, read through public accessors; a rule object is re-inserted only while detached; restart compares kinds of rules with non-empty serialisation and merges same-named margin boxes. Sampling, not proof.",
    technique="deterministic simulation: seeded edit/fault histories with state invariants after every step and serialise-reparse restart steps",
    ref="DESIGN.md 5 C09",
)
CHECKS["C11"] = dict(
    text="Atomicity under abort: every public mutator of every DOM class is called, in raise mode, with content whose first malformed / hierarchy-violating / undeclared-namespace construct sits at a seeded slot (immediately, after j accepted parts, inside a nested object) on sheets in seeded prior states; whenever a DOM exception unwinds, the projection and serialisation of target, owning rule and sheet plus the namespace mapping must equal the snapshot taken before the call; objects constructed read-only must reject every mutator.",
    note="Non-DOM exceptions are counted, not judged. Observation is the public projection of the whole sheet plus cssText. Sampling, not proof.",
    technique="deterministic simulation with fault injection: seeded abort placement inside mutators, before/after snapshot comparison on every DOM exception",
    ref="DESIGN.md 5 C11",
)

CHECKS["C17"] = dict(
    text="Seeded edit histories (appendMedium / deleteMedium / item assignment and deletion / mediaText assignment with duplicates, 'all', comments and one malformed query / restart through the owner rule) on media lists that are stand-alone, owned by an @media rule or owned by an @import rule, in lock step with an ordered-set reference model; after every step the text must reparse to an equal list, count / indexing / iteration must agree, and the canonical-form rules ('all' absorbs, a simple type once, empty means 'all') must hold.",
    note="Media types are lower-case where set semantics are judged; whether a query is a simple media type is derived from its text (one identifier), not read from the code under test; item assignment is predicted by the model; the surviving spelling of a moved type, appending to the empty list and item deletion are observed rather than predicted. Sampling, not proof.",
    technique="deterministic simulation: seeded operation histories in lock step with an ordered-set reference model plus restart (serialise/reparse) steps",
    ref="DESIGN.md 5 C17",
)

CHECKS["C16"] = dict(
    text="Seeded histories (appendSelector / item replacement / selectorText assignment incl. one invalid member / attach / detach / restart) on selector lists that are stand-alone, in a detached rule or in a rule of a sheet, in lock step with an ordered-list-with-move-to-end model; every selector comes from a constructive CSS3 grammar generator that knows specificity and simple-selector sequence by construction and is checked in several spellings, after attach/detach and after a serialisation round trip.",
    note="The list-history, attach/detach and restart clauses are decided by simulation; the counting formula itself is reached through generated selectors (input generation, labelled as such in the evidence). Pseudo-classes are in no column of the statement's formula. Sampling, not proof.",
    technique="deterministic simulation: seeded operation histories in lock step with a reference list model; constructive generator as specificity oracle",
    ref="DESIGN.md 5 C16",
)

CHECKS["C15"] = dict(
    text="Seeded histories of namespace operations (mapping set / delete, @namespace rule insert / delete, namespaced style rules added at top level and in @media, selectors replaced, rules moved between sheets, sheet text replaced, restart) on one or two sheets; after every step the mapping must equal the effective @namespace rules (V1), every used URI must be declared (V2), removal of a used namespace and undeclared prefixes must be rejected without change (V3, V7), every selector the harness created must keep its (URI, local name) pairs (V4), serialised @namespace rules must stay well-formed, and a restart must re-resolve to the same pairs (V5, V6).",
    note="Outcomes the statement leaves open (re-binding a prefix to a URI that has one; two rules binding one prefix to different URIs) are observed, not predicted. One recorded known finding (unprefixed names written before a default namespace exists are serialised '|name'; pinned by the suite). Sampling, not proof.",
    technique="deterministic simulation: seeded namespace-edit histories with state invariants, tracked selector meanings and restart steps",
    ref="DESIGN.md 5 C15",
)

CHECKS["C14"] = dict(
    text="Seeded histories of addProfile / addProfiles / removeProfile / removeProfile(all)+re-add / defaultProfiles assignments / rejected removals on a private Profiles registry, with six custom profiles that add properties, redefine existing ones and define macros overriding token macros, general macros and macros of built-in profiles (one callable validator); a 40-pair verdict battery, the known names, the profile list and the per-profile property lists are compared after every step with every earlier state of equal contents in the run, and with a brand-new registry whenever only the built-ins are registered.",
    note="Contents = ordered list of registered names with their definition variant (pool definition, or the same properties registered without the profile's own macros); after every step the registry is also compared with a new registry given the same profiles directly (no history at all); single removals go in reverse order of registration and definitions are well-defined (removing a profile whose macros others use, or naming an undefined macro, is the caller's error). Sampling, not proof.",
    technique="deterministic simulation: seeded registry histories with a recurrence (same contents => same observable behaviour) oracle and comparison with a history-free replica built directly from the contents",
    ref="DESIGN.md 5 C14",
)

CHECKS["C08"] = dict(
    text="A generated import chain (depth <= 3) is served by a simulated network in which every document independently has a wire encoding, BOM / @charset (truthful or lying) / neither, an HTTP charset (absent, truthful, lying), bytes or text delivery and fetch faults; every document carries marker bytes that decode differently under each candidate encoding, so the DOM reveals the encoding actually used.  The reference precedence ladder (override > HTTP > BOM/@charset > referring sheet > UTF-8, override governs nested imports) is evaluated on the ground truth and compared with marker and reported encoding at every depth; seeded edit steps (add @import after parse, set encoding, insert characters outside the target encoding in identifier / string / url / comment position) are each followed by: encoding attribute == @charset rule, serialisation is bytes decodable in that encoding, restart (decode + reparse) gives the same DOM.",
    note="Candidate encodings limited to a mutually distinguishable set; an import whose bytes do not decode under the selected encoding is expected to stay unloaded. Sampling, not proof.",
    technique="deterministic simulation with fault injection: generated multi-party fetch world (lying charsets, failing fetches) against a reference precedence model, plus edit histories with restart",
    ref="DESIGN.md 5 C08",
)

CHECKS["C19"] = dict(
    text="A generated virtual web of 1-8 sheets (import tree or DAG over parent / sibling / child directories and another host; relative, ../-, root-, scheme-relative and absolute URLs with query strings and fragments; media on any edge; missing and failing targets; unwrappable content) is served by a simulated network to parseUrl / resolveImports / csscombine (normal and minified, custom fetcher and fake urlopen).  getUrls and the replacer call log are compared with the generator's document-order URL list (identity replacer = byte-for-byte no-op); the combined sheet is reduced to an ordered sequence of (media context, leaf) with URLs made absolute and compared with an expansion oracle computed from the abstract sheets with urljoin; kept @imports, fetch counts (trees) and the global serializer are checked as well.",
    note="Where the statement leaves a choice (group containing @page / @font-face / nested @media; href of a kept import below depth 1) the outcome is observed, not predicted. One recorded known finding (an unavailable target is fetched again when its kept rule is added to the combined sheet). Sampling, not proof.",
    technique="deterministic simulation with fault injection: generated multi-party web served by a simulated transport (missing / failing targets), expansion reference model with urljoin",
    ref="DESIGN.md 5 C19",
)

CHECKS["C01"] = dict(
    text="Totality and time bound under a simulated environment: the root document (token soup, damaged and torn sheets, nesting sweeps to depth 400 and - past the interpreter's recursion limit - to 1500, one token repeated up to 200 times inside a possibly unclosed context, @charset rules naming every kind of codec; text or decodable bytes with or without BOM / @charset) is parsed through every default entry point with seeded parser options while a simulated fetcher serves an import graph (tree, DAG, cycle, self-import) with faults (None, (None, None), torn documents, undecodable bytes, text instead of bytes); the pipeline parse -> serialise in raise mode -> serialise in log mode -> reparse -> serialise must not raise anything, must stay inside a tick budget measured by a deterministic clock (entries into functions of the tree under test), and the number of fetches must stay bounded by the import edges.",
    note="The fetcher / cycle / torn-document clauses and the time bound are decided by simulation; the token x state x nesting product is reached through generated content (input generation, labelled as such). Loops inside C code are only covered by the parent's wall-clock watchdog. Sampling, not proof.",
    technique="deterministic simulation with fault injection: seeded fetch-fault and cycle injection under a deterministic tick clock (sys.monitoring), watchdog-backed",
    ref="DESIGN.md 5 C01",
)
CHECKS["C03"] = dict(
    text="Crash-recovery style check with cssText as the only durable form: a sheet parsed from a well-formed generated source (both quote kinds, backslashes, CSS escapes, line breaks, non-ASCII, comments at rule and declaration level, namespaces, nested @media, @page with margin boxes) is driven through a seeded history of accepted DOM edits; Restart steps (serialise, drop everything, reparse - directly, through a scratch file, or served by the simulated network) and NodeRestart steps (text of one rule / declaration block / selector list / media list / property value set on a fresh object) must give an equal projection and byte-identical text.",
    note="Equality modulo the documented default preferences (empty rules are not serialised); white space items inside selectors are not compared; @variables are not generated. One recorded known finding (a margin box holding nothing but comments is not serialised; pinned by the suite). Input spellings are only as good as the renderer (input generation). Sampling, not proof.",
    technique="deterministic simulation: seeded edit histories with restart (serialise / drop / reparse) and node-restart steps against projection equality and byte fixpoint",
    ref="DESIGN.md 5 C03",
)

PENDING = {'C01': "check not built yet in this round (claimed by DESIGN.md section 2; will move to 'checks' when its simulation world exists)", 'C03': "check not built yet in this round (claimed by DESIGN.md section 2; will move to 'checks' when its simulation world exists)", 'C08': "check not built yet in this round (claimed by DESIGN.md section 2; will move to 'checks' when its simulation world exists)", 'C09': "check not built yet in this round (claimed by DESIGN.md section 2; will move to 'checks' when its simulation world exists)", 'C10': "check not built yet in this round (claimed by DESIGN.md section 2; will move to 'checks' when its simulation world exists)", 'C11': "check not built yet in this round (claimed by DESIGN.md section 2; will move to 'checks' when its simulation world exists)", 'C12': "check not built yet in this round (claimed by DESIGN.md section 2; will move to 'checks' when its simulation world exists)", 'C14': "check not built yet in this round (claimed by DESIGN.md section 2; will move to 'checks' when its simulation world exists)", 'C15': "check not built yet in this round (claimed by DESIGN.md section 2; will move to 'checks' when its simulation world exists)", 'C16': "check not built yet in this round (claimed by DESIGN.md section 2; will move to 'checks' when its simulation world exists)", 'C17': "check not built yet in this round (claimed by DESIGN.md section 2; will move to 'checks' when its simulation world exists)", 'C19': "check not built yet in this round (claimed by DESIGN.md section 2; will move to 'checks' when its simulation world exists)"}


def main():
    checks = []
    for pid in sorted(CHECKS):
        c = CHECKS[pid]
        checks.append(
            {
                "property_id": pid,
                "quick_cmd": f"./check {pid} --tier quick",
                "thorough_cmd": f"./check {pid} --tier thorough",
                "evidence_file": f"/verif/evidence/{pid}.json",
                "replay_cmd_template": f"./check {pid} --replay {{path}}",
                "engine": "simkit",
                "level_claimed": {"category": "exploration", "text": c["text"], "design_ref": c["ref"]},
                "level_note": c["note"],
                "technique": c["technique"],
            }
        )
    na = [{"property_id": k, "reason": v} for k, v in sorted({**NA, **PENDING}.items()) if k not in CHECKS]
    m = {
        "version": 1,
        "setup_cmd": "./check selftest --fast",
        "hooks": {
            "guard": "CSSUTILS_VERIF",
            "enable": "no hook in /repo is needed: every seam (fetcher, urlopen, files, streams, log sink, error mode) is a public argument or a module attribute resolved at call time; checks export CSSUTILS_VERIF=1 and import the working tree from VERIF_REPO (default /repo)",
            "baseline_off_cmd": "cd /repo && /venv/bin/python -m pytest -ra -q -p no:cacheprovider --timeout=900 --continue-on-collection-errors",
            "source_commits": [],
            "add_only": True,
        },
        "engines": [
            {
                "name": "simkit",
                "path": "/verif/sim",
                "serves_properties": sorted(CHECKS),
                "kind_free_text": "own deterministic simulator: seeded named streams from VERIF_SEED, concrete total operation/fault records, one forked pristine interpreter per run, lock-step reference models and state invariants, ddmin shrinking, JSON replay files, determinism self-check in a fresh interpreter under another PYTHONHASHSEED",
            }
        ],
        "checks": checks,
        "not_applicable": na,
        "notes": "Technique family: deterministic simulation with fault injection. Exit 0 = held (KNOWN-FINDING lines possible), 1 = VIOLATION line(s), 2 = harness error. Known findings: /verif/known_findings.json; regression corpus of repaired defects: /verif/corpus/.",
    }
    with open(os.path.join(HERE, "MANIFEST.json"), "w") as f:
        json.dump(m, f, indent=1)
        f.write("\n")


if __name__ == "__main__":
    main()
