#!/bin/sh
# usage: tools/thorough_all.sh [ids...]  - every thorough tier once (no evidence written: the quick evidence stays the committed one)
here="$(cd "$(dirname "$0")/.." && pwd)"
ids="${@:-C07 C15 C16 C17 C01 C03 C08 C09 C10 C11 C19 C14 C12}"
for id in $ids; do
  out=$(VERIF_NO_EVIDENCE=1 "$here/check" "$id" --tier thorough --no-selfcheck 2>&1); rc=$?
  if [ $rc -ne 0 ]; then echo "THOROUGH-FAIL id=$id rc=$rc"; echo "$out" | grep -E "violation|VIOLATION|HARNESS" | head -8; else echo "thorough ok id=$id $(echo "$out" | tail -1 | cut -c1-120)"; fi
done
