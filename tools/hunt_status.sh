#!/bin/sh
# usage: tools/hunt_status.sh [tree]  - run every hunter case script against a tree (default /repo): 1 = violation present
tree=${1:-/repo}
here=$(cd "$(dirname "$0")/.." && pwd)
for f in $here/hunt/*/case_*.py; do
  id=$(basename $(dirname $f)); n=$(basename $f .py)
  ( cd $tree && PYTHONPATH=$tree timeout 120 /venv/bin/python $f >/dev/null 2>&1 ); rc=$?
  echo "$id $n $rc"
done
