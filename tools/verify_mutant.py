#!/venv/bin/python
"""Verify a bug-introducing change written by a sub-agent and run the property's check against it.

usage: verify_mutant.py <PROP_ID> <name> <patch.diff> <demo.py> [notes.txt] [--keep] [--check-args "..."]

Steps (all in a scratch worktree of /repo HEAD under /tmp, removed afterwards):
  1. demo on the unchanged tree            -> must exit 0
  2. apply the patch, run the test suite   -> must be '410 passed' (+ the 2 known network failures)
  3. demo on the changed tree              -> must exit 1
  4. VERIF_REPO=<tree> ./check <ID> --tier quick  -> exit 1 + VIOLATION line = caught
With --keep the mutant is stored as /verif/seeded/<ID>-<name>/ (patch.diff, demo.py, meta.json).
"""
import json
import os
import re
import shutil
import subprocess
import sys

V = os.path.dirname(os.path.dirname(os.path.abspath(__file__)))


def sh(cmd, cwd=None, env=None, timeout=1800):
    p = subprocess.run(cmd, shell=True, cwd=cwd, env=env, capture_output=True, text=True, timeout=timeout)
    return p.returncode, (p.stdout + p.stderr)


def main():
    args = [a for a in sys.argv[1:] if not a.startswith("--")]
    keep = "--keep" in sys.argv
    extra = ""
    if "--check-args" in sys.argv:
        extra = sys.argv[sys.argv.index("--check-args") + 1]
        args = [a for a in args if a != extra]
    pid, name, patch, demo = args[:4]
    notes = args[4] if len(args) > 4 else None
    tree = f"/tmp/mv_{pid}_{name}_{os.getpid()}"
    res = {"property": pid, "name": name}
    sh(f"git -C /repo worktree add -q --detach {tree} HEAD")
    try:
        denv = dict(os.environ, PYTHONPATH=tree)  # the demo must import the scratch tree, not the installed /repo
        rc, out = sh(f"/venv/bin/python {demo}", cwd=tree, env=denv)
        res["demo_on_unchanged_tree"] = rc
        rc, out = sh(f"git apply {patch}", cwd=tree)
        res["patch_applies"] = rc == 0
        if rc != 0:
            res["error"] = out[-500:]
            return res
        rc, out = sh("/venv/bin/python -m pytest -q -p no:cacheprovider -n 8 2>&1 | tail -4", cwd=tree)
        m = re.search(r"(\d+) failed, (\d+) passed", out)
        res["suite"] = m.group(0) if m else out[-200:]
        res["suite_ok"] = bool(m and m.group(2) == "410" and m.group(1) == "2")
        rc, out = sh(f"/venv/bin/python {demo}", cwd=tree, env=denv)
        res["demo_on_changed_tree"] = rc
        res["demo_output"] = out[-400:]
        env = dict(os.environ, VERIF_REPO=tree)
        rc, out = sh(f"{V}/check {pid} --tier quick {extra}", cwd=V, env=env)
        res["check_exit"] = rc
        viol = [l for l in out.splitlines() if l.startswith("violation ")]
        res["check_violations"] = [v[:300] for v in viol[:4]]
        res["caught"] = rc == 1 and any(l.startswith("VIOLATION ") for l in out.splitlines())
        if rc not in (0, 1):
            res["check_output_tail"] = out[-800:]
    finally:
        sh(f"git -C /repo worktree remove --force {tree}")
        shutil.rmtree(tree, ignore_errors=True)
    valid = res.get("demo_on_unchanged_tree") == 0 and res.get("suite_ok") and res.get("demo_on_changed_tree") == 1
    res["valid_mutant"] = bool(valid)
    if keep and valid:
        d = os.path.join(V, "seeded", f"{pid}-{name}")
        os.makedirs(d, exist_ok=True)
        shutil.copy(patch, os.path.join(d, "patch.diff"))
        shutil.copy(demo, os.path.join(d, "demo.py"))
        meta = {
            "property": pid,
            "breaks": open(notes).read().strip() if notes and os.path.exists(notes) else "",
            "what_was_run": [
                "demo.py on the unchanged tree: exit 0",
                f"test suite with the change: {res['suite']}",
                "demo.py with the change: exit 1",
                f"./check {pid} --tier quick {extra} with VERIF_REPO=<scratch worktree with the patch>: exit {res['check_exit']}",
            ],
            "caught_by_quick_check": res["caught"],
            "check_violations": res["check_violations"],
        }
        json.dump(meta, open(os.path.join(d, "meta.json"), "w"), indent=1)
    return res


if __name__ == "__main__":
    print(json.dumps(main(), indent=1))
