#!/venv/bin/python
"""Harvest regression replays: run a check against a scratch checkout of an OLD tree (VERIF_REPO), keep
each minimised violation that (a) reproduces there and (b) does NOT reproduce on /repo (i.e. was repaired).
usage: harvest_corpus.py <ID> <old-tree-dir> [runs]"""
import json, os, re, shutil, subprocess, sys

pid, old = sys.argv[1], sys.argv[2]
runs = sys.argv[3] if len(sys.argv) > 3 else "2000"
V = os.path.dirname(os.path.dirname(os.path.abspath(__file__)))
env = dict(os.environ, VERIF_REPO=old)
p = subprocess.run([V + "/check", pid, "--runs", runs, "--no-selfcheck"], env=env, capture_output=True, text=True)
kept = 0
for line in p.stdout.splitlines():
    m = re.match(r"VIOLATION property=(\S+) replay=(\S+)", line)
    if not m:
        continue
    path = m.group(2)
    rp = json.load(open(path))
    q = subprocess.run([V + "/check", pid, "--replay", path], capture_output=True, text=True)
    if q.returncode != 0:
        print("still fails on /repo:", rp["expect"], rp["detail"][:120])
        continue
    name = re.sub(r"[^A-Za-z0-9_.-]+", "_", f"{rp['expect']['inv']}-{rp['expect']['sig']}")[:100] + ".json"
    d = os.path.join(V, "corpus", pid)
    os.makedirs(d, exist_ok=True)
    if not os.path.exists(os.path.join(d, name)):
        rp["found_on_tree"] = rp.pop("tree")
        json.dump(rp, open(os.path.join(d, name), "w"), indent=1, sort_keys=True)
        kept += 1
        print("kept", name)
print("kept", kept)
# evidence was rewritten against the old tree: remove so that nobody commits it by accident
