#!/venv/bin/python
"""Rebuilds the 'fixed' list of known_findings.json from the fix: commits of /repo (hash resolved by subject)."""
import json, os, subprocess
V = os.path.dirname(os.path.dirname(os.path.abspath(__file__)))
T = [
 ("css codec encoders return bytes", "C07", "IncrementalEncoder.encode / StreamWriter.encode returned '' (str) while the header was buffered: TypeError when joining chunks or writing to a binary stream"),
 ("css codec encodes a text whose @charset rule is never terminated", "C07", "'@charset \"abc'.encode('css') raised AttributeError; the incremental encoder never flushed such a text"),
 ("css codec decides on UTF-8 once the input can no longer become", "C07", "detectencoding_str stayed 'unknown yet' for any input starting '@cha' that is not '@charset \"': StreamReader never delivered \"@charset 'x';...\""),
 ("css codec detects an input consisting of just the UTF-16-LE BOM", "C07", "detectencoding_str(b'\\xff\\xfe', final=True) fell through to UTF-8"),
 ("a parse call restores the error mode it found", "C12", "a parse ending in an exception left log.raiseExceptions in the parse-time mode; a parser built under one mode reset the process to that mode"),
 ("a stand-alone MediaQuery no longer leaves its unparsed rest", "C12", "MediaQuery('print, screen') left ',' in prodparser.savedTokens; the next parseString('a { color: red }') serialised to b''"),
 ("an @import cycle no longer recurses", "C01", "a sheet importing itself or an ancestor recursed until RecursionError"),
 ("CSSVariablesDeclaration removes and updates a variable whatever the case", "C10", "variable parsed as 'X': removeVariable('x') / setVariable('x') changed the API view but not the serialisation"),
 ("style.overflowX / style.overflowY address", "C10", "DOM names with a single-letter last word mapped to bogus properties 'overflowx'/'overflowy'"),
 ("a rejected CSSStyleSheet.cssText leaves the sheet", "C11", "in raise mode a rejected sheet text kept the rules parsed so far"),
 ("a rejected CSSMediaRule.cssText leaves the rule", "C11", "new media list and partially parsed rules kept after a rejected @media text"),
 ("a rejected Property.cssText leaves the property", "C11", "name committed before the value was rejected"),
 ("a refused CSSNamespaceRule.cssText no longer changes the prefix", "C11", "prefix committed before the URI change was refused"),
 ("read-only objects reject removeVariable and the name setters", "C11", "three mutators without read-only check"),
 ("a refused insertion of an @namespace rule leaves the sheet", "C11", "namespaces[p]=u raised from the clean-up after the new rule had been inserted"),
 ("rules replaced by setting CSSStyleSheet.cssText no longer name the sheet", "C09", "old rules kept parentStyleSheet after sheet.cssText = ..."),
 ("ordered add of @namespace / @variables never lands in front of @import", "C09", "comment/unknown rule ahead of @import: ordered add put @namespace first, restart lost the @import"),
 ("insertRule only claims rules it actually inserted", "C09", "duplicate @namespace/@charset kept parentStyleSheet; rule moved out of @media kept parentRule"),
 ("rules replaced by setting the cssText of an @media or @page rule", "C09", "old nested rules kept parentRule"),
 ("setting the prefix of a default @namespace rule keeps its URI", "C09", "namespaces['']=uri on a sheet with that default rule serialised '@namespace;' (also C15)"),
 ("CSSPageRule.insertRule only accepts margin rules", "C09", "style/unknown/comment rules accepted into @page and lost on reparse"),
 ("del sheet.namespaces[prefix] deletes the @namespace rule", "C09", "an @import was deleted instead of the @namespace rule (also C15)"),
 ("CSSNamespaceRule.cssText with another URI changes nothing in log mode", "C09", "log mode: refused URI change still stored prefix and sequence"),
 ("an incomplete media query inside a media list invalidates", "C17", "'print and, tv' accepted even in raise mode; list reparsed differently"),
 ("len(), indexing and item() of a MediaList count media only", "C17", "with a comment in the list len() != length, item(i) raised, deleteMedium removed the wrong entry"),
 ("MediaList item assignment keeps the list canonical", "C17", "list[i]='all' / a duplicate not canonicalised"),
 ("@import accepts a media list that starts with an expression", "C17", "'@import url(x.css) (monochrome);' lost on reparse"),
 (":not() accepts a functional pseudo-class", "C16", "':not(:lang(en))' rejected"),
 ("':NOT(' is recognised as negation", "C16", "'a:NOT(.c)' rejected"),
 ("a rule object using a namespace the sheet does not declare", "C15", "a rule moved from another sheet brought an undeclared namespace URI"),
 ("removeProfile(all=True) also forgets the macros", "C14", "re-added built-ins gave other verdicts than a new Profiles()"),
 ("adding a profile under a name that is already registered replaces", "C14", "duplicate name entry, KeyError after one removal"),
 ("addProfiles() re-expands the profiles defined before", "C14", "verdicts depended on whether a macro-overriding profile was added singly or in bulk"),
 ("parseUrl does not force the encoding found for the sheet", "C08", "parseUrl passed the root's HTTP/BOM/@charset encoding down as override"),
 ("URLs re-based while flattening @imports keep query and fragment", "C19", "url(a.png?q=1#f) lost query/fragment; relative URLs of a sheet imported from another host re-based onto the importing host"),
 ("an import whose own imports cannot all be resolved is kept", "C19", "missing nested target under a media-qualified import: HierarchyRequestErr escaped / inner @import lost"),
 ("getUrls/replaceUrls visit the declarations of @page before", "C19", "margin-box URLs enumerated before the page rule's own"),
 ("serialising nested functions no longer takes time exponential", "C01", "two recursive serialisations per nesting level (hasattr(val,'cssText') evaluates the property)"),
 ("an at-rule after '<!--' or '-->' no longer crashes", "C01", "TypeError in charsetrule/namespacerule after CDO/CDC"),
 ("'@charset ' at the end of the input is reported", "C01", "IndexError in _stringtokenvalue"),
 ("a colour function cut off by the end of the input", "C01", "ValueError in ColorValue for 'rgb(' at end of input"),
 ("'var(' cut off by the end of the input", "C01", "KeyError in CSSVariable for 'var(' at end of input"),
 ("an unexpected at-keyword where no 'new' dictionary is kept", "C01", "TypeError in the default ATKEYWORD production (at-keyword inside a priority)"),
 ("white space after a comment inside a functional pseudo-class", "C01", "TypeError in selector _S"),
 ("a CSSCharsetRule created with an unusable encoding", "C01", "AttributeError '_encoding' (sheet.encoding='unknown', parseUrl of '@charset \"s\"...')"),
 ("the encoding of a fetched sheet is detected knowing that its content is complete", "C01", "parseUrl returned None for an empty UTF-16 sheet (BOM only); also C08"),
 ("identifiers keep the escapes they need when serialised", "C03", "'.\\31 a' serialised '.1a' (rejected on reparse); '\\31 23' came back as the number 123; 'a\\c b' written with a raw form feed"),
 ("the text of a multi-line comment inside a block is not re-indented", "C03", "comment text grew by one indentation per restart"),
 ("an escaped backslash followed by hex digits is not read as a hexadecimal escape", "C03", "\"\\\\41 bc\" became U+0ABC after one restart"),
 ("rules nested more than one level deep know their style sheet", "C03", "selectors in @media in @media parsed without the sheet's namespaces (also C09 I4, C15)"),
 ("an escaped line break after an escaped backslash stays in a string", "C03", "backslash + escaped new line dropped from a string"),
 ("a rule given as text to insertRule()/add() of an @media rule sees", "C03", "text inserted into @media parsed without the sheet's namespaces (also C15)"),
 ("white space inside the declarations of a margin rule is kept", "C03", "'calc(1px + 2px)' in a margin box lost the whole @page rule on reparse"),
 ("a namespace used only inside nested @media rules counts as used", "C03", "@namespace rule deletable although used in nested @media (also C15 V2/V3)"),
 ("a fetched sheet declaring an unknown encoding is reported as unreadable", "C01", "LookupError escaped from parseUrl / from the parse of an importing sheet"),
 ("the default fetcher reports a URL the HTTP client refuses", "C01", "http.client.InvalidURL escaped from parseString for an @import URL with white space"),
 ("tokenizing a string with many escapes that is never closed", "C01", "unterminated string with many hex escapes: exponential backtracking in the tokenizer (ambiguous unicode macro)"),
 ("serialising an unknown at-rule with a brace inside a string or URI", "C01", "'@x \"}\" ;' raised IndexError in do_CSSUnknownRule; '@x \"{\" ;' lost the rest of the rule"),
 ("tokenizing an unterminated comment made of many '*'", "C01", "'/*' + many '*' and 'url(' + many '\\z' without an end: exponential backtracking (ambiguous comment and url macros)"),
 ("a hex escape followed by a line break could be matched in two ways", "C01", "'url(' + many '\\a<newline>' without an end: exponential backtracking"),
 ("a comment between the declarations of a margin box was swallowed", "C03", "'@page { @top-left { /*c*/ x: y } }': comment given through the DOM or the source lost on reparse; a comment-only box dropped the box (C09 I5)"),
 ("a variables block whose last declaration ends with ';' followed by a comment", "C10", "variables 'x: 1; /*c*/ y: 2' after removeVariable('y') serialised 'x: 1;\\n/*c*/', which did not reparse (raise mode) or listed no variables (log mode)"),
 ("a rejected MediaList.mediaText (e.g. a comment only) no longer flags", "C11", "media.mediaText = '/*x*/' raised SyntaxErr but set wellformed False on the unchanged list: the @media rule vanished from the sheet's serialisation"),
 ("a rejected CSSStyleSheet.cssText no longer leaves the variables", "C11", "rejected sheet text starting with @variables left its variables in sheet.variables"),
 ("a dimension whose unit contains an escaped line break", "C01", "'a{width:1\\a x}' raised IndexError in DimensionValue"),
 ("a variables block with a comment before a variable that is declared twice", "C01", "'@variables { /*c*/ a: 1; a: 2 }' raised TypeError ('CSSComment' object is not subscriptable)"),
 ("an identifier whose escaped value is a brace", "C01", "'@foo \\7d ;' raised IndexError when serialised (escaped '}' taken for the end of a block)"),
 ("an @import whose href cannot be joined with the base URL", "C01", "'@import \"http://[x\";' raised ValueError (Invalid IPv6 URL) from the parse"),
 ("numbers too large for a float or for Python's int conversion", "C01", "'a{width:999...9.5px}' (400 digits) raised OverflowError when serialised; 5000-digit integers raised ValueError when parsed"),
 ("the css codec refuses encodings that are no text encodings", "C01", "an imported sheet starting '@charset \"rot13\"' / zlib / quopri made TypeError / zlib.error escape from the parse of the importing sheet"),
 ("an @charset rule only accepts encodings a sheet can be serialised with", "C01", "a sheet given as text with '@charset \"rot13\"' / hex / idna / undefined / css parsed but raised LookupError / UnicodeError / ValueError when serialised"),
 ("a value with about a thousand space or comma separated items", "C01", "'a{font-family:a a a ...}' with 1000 items raised RecursionError (one generator wrapped per item; quadratic time)"),
 ("serialising deeply nested blocks of an unknown at-rule", "C01", "'@x {{{{...' 200 levels deep took seconds to serialise (cubic, character loop in Python)"),
 ("input nested deeper than the interpreter's recursion limit allows", "C01", "400 nested functions in a value, 200 nested @media rules or 400 nested unknown blocks raised RecursionError from parseString"),
 ("validating a long identifier run took exponential time", "C01", "'voice-family: aaaa...a 1' and 'font-family: eeee...e 1' with non-ASCII letters: validation regexes ambiguous, seconds at 24 characters"),
]
log = subprocess.run(["git", "-C", "/repo", "log", "--format=%h\t%s", "36c1f69..HEAD"], capture_output=True, text=True).stdout.splitlines()
subj = {l.split("\t")[1][5:]: l.split("\t")[0] for l in log if l.split("\t")[1].startswith("fix: ")}
out, used = [], set()
for pre, pid, what in T:
    hit = [s for s in subj if s.startswith(pre)]
    assert len(hit) == 1, (pre, hit)
    used.add(hit[0])
    out.append(f"fixed: property={pid} {subj[hit[0]]} {what}")
missing = [s for s in subj if s not in used]
assert not missing, missing
p = os.path.join(V, "known_findings.json")
d = json.load(open(p))
d["fixed"] = out
json.dump(d, open(p, "w"), indent=1)
print(len(out), "fixed entries")
