#!/venv/bin/python
"""note_mutant.py <ID>-<name> <caught:0|1> "<strengthening text>" ["violation line"] - annotate seeded/<..>/meta.json"""
import json, os, sys
V = os.path.dirname(os.path.dirname(os.path.abspath(__file__)))
p = os.path.join(V, "seeded", sys.argv[1], "meta.json")
m = json.load(open(p))
m["caught_before_strengthening"] = m.get("caught_before_strengthening", m.get("caught_by_quick_check"))
m["caught_by_quick_check"] = bool(int(sys.argv[2]))
m["strengthening"] = sys.argv[3]
if len(sys.argv) > 4:
    m["check_violations"] = [sys.argv[4]]
json.dump(m, open(p, "w"), indent=1)
