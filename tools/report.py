#!/venv/bin/python
"""Markdown summary of evidence/*.json (pasted into DESIGN.md section 9)."""
import glob, json, os
V = os.path.dirname(os.path.dirname(os.path.abspath(__file__)))
print("| Id | tier | runs | steps | distinct non-trivial histories | distinct abstract states | oracle comparisons | faults fired (kinds) | runs/hour | wall s |")
print("|---|---|---|---|---|---|---|---|---|---|")
for f in sorted(glob.glob(V + "/evidence/C*.json")):
    d = json.load(open(f)); c = d["coverage"]
    faults = c["faults_fired"]
    fs = ", ".join(f"{k} {v}" for k, v in sorted(faults.items(), key=lambda kv: -kv[1])[:6]) or "-"
    print(f"| {d['property_id']} | {d['tier']} | {c['simulated_runs']} | {c['simulated_steps']} | {c['distinct_nontrivial']} | {c['distinct_abstract_states']} | {c['oracle_comparisons']} | {fs} | {c['runs_per_hour']} | {d['wall_s']} |")
