#!/bin/sh
# usage: tools/verify_wave.sh <wave-dir-prefix e.g. /tmp/mut3_> <name-prefix e.g. w3m> <ID>...
pre=$1; np=$2; shift 2
here=$(cd "$(dirname "$0")/.." && pwd)
for id in "$@"; do
  for n in 1 2 3; do
    d=${pre}${id}_out
    [ -f $d/patch_$n.diff ] || continue
    /venv/bin/python $here/tools/verify_mutant.py $id ${np}$n $d/patch_$n.diff $d/demo_$n.py $d/notes_$n.txt --keep > /tmp/vw_${id}_$n.json 2>&1
    /venv/bin/python - <<PY
import json
try:
    r=json.load(open('/tmp/vw_${id}_$n.json'))
    print('$id ${np}$n', 'valid' if r.get('valid_mutant') else 'INVALID', 'CAUGHT' if r.get('caught') else 'MISSED', r.get('check_exit'), (r.get('check_violations') or [''])[0][:140], r.get('suite'), r.get('demo_on_unchanged_tree'), r.get('demo_on_changed_tree'))
except Exception as e:
    print('$id ${np}$n', 'ERROR', e, open('/tmp/vw_${id}_$n.json').read()[-300:])
PY
  done
done
