#!/venv/bin/python
"""Regenerates the generated tables of DESIGN.md (between <!-- BEGIN:x --> / <!-- END:x --> markers):
fixed (known_findings.json 'fixed'), mutants (seeded/*/meta.json), coverage (evidence/*.json)."""
import glob, json, os, re, subprocess
V = os.path.dirname(os.path.dirname(os.path.abspath(__file__)))


def fixed():
    d = json.load(open(V + "/known_findings.json"))
    out = ["| Property | Commit | What failed on the pinned tree |", "|---|---|---|"]
    for e in d["fixed"]:
        m = re.match(r"fixed: property=(\S+) (\S+) (.*)", e)
        out.append(f"| {m.group(1)} | `{m.group(2)}` | {m.group(3).replace('|', '&#124;')} |")
    return "\n".join(out), len(d["fixed"])


def mutants():
    out = ["| Mutant | What the change breaks (sub-agent's words, shortened) | Quick check before strengthening | Now | Caught as | Strengthening |", "|---|---|---|---|---|---|"]
    n = c0 = c1 = 0
    for p in sorted(glob.glob(V + "/seeded/*/meta.json")):
        m = json.load(open(p))
        name = os.path.basename(os.path.dirname(p))
        before = m.get("caught_before_strengthening", m.get("caught_by_quick_check"))
        now = m.get("caught_by_quick_check")
        n += 1; c0 += bool(before); c1 += bool(now)
        breaks = " ".join((m.get("breaks") or "").split())[:230].replace("|", "&#124;")
        viol = (m.get("check_violations") or [""])[0]
        viol = re.sub(r"^violation ", "", viol)[:150].replace("|", "&#124;")
        st = (m.get("strengthening") or "").replace("|", "&#124;")
        nowtxt = "retired (code rewritten by a repair)" if m.get("retired") else ("caught" if now else "MISSED")
        if m.get("patch_rebased"):
            st = (st + "; " if st else "") + "patch rebased onto the repaired tree"
        out.append(f"| {name} | {breaks} | {'caught' if before else 'missed'} | {nowtxt} | {viol} | {st} |")
    return "\n".join(out), (n, c0, c1)


def coverage():
    p = subprocess.run(["/venv/bin/python", V + "/tools/report.py"], capture_output=True, text=True)
    return p.stdout.strip()


def main():
    path = V + "/DESIGN.md"
    s = open(path).read()
    ft, nf = fixed()
    mt, (n, c0, c1) = mutants()
    blocks = {"fixed": ft, "mutants": mt, "coverage": coverage(), "counts": f"{nf} repairs; {n} seeded changes, {c0} caught by the quick checks as first written, {c1} after strengthening"}
    for k, v in blocks.items():
        pat = re.compile(rf"(<!-- BEGIN:{k} -->\n).*?(\n<!-- END:{k} -->)", re.S)
        assert pat.search(s), k
        s = pat.sub(lambda m: m.group(1) + v + m.group(2), s)
    open(path, "w").write(s)
    print(blocks["counts"])


main()
