#!/bin/sh
# usage: tools/all_mutants.sh [out]  - every kept mutant against its quick check (scratch worktrees); table on stdout
here=$(cd "$(dirname "$0")/.." && pwd)
for d in $here/seeded/*/; do
  n=$(basename $d); id=${n%%-*}; name=${n#*-}
  if grep -q '"retired"' $d/meta.json; then echo "$n RETIRED"; continue; fi
  res=$($here/tools/try_mutant.sh $id $name 2>&1)
  if echo "$res" | grep -q "^VIOLATION"; then st=CAUGHT; else st=MISSED; fi
  first=$(echo "$res" | grep "^violation" | head -1 | cut -c1-160)
  echo "$n $st $first"
done
