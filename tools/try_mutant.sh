#!/bin/sh
# usage: tools/try_mutant.sh <ID> <name> [check args]   - run the quick check against a kept mutant in a scratch worktree
id=$1; name=$2; shift 2
here=$(cd "$(dirname "$0")/.." && pwd)
tree=/tmp/tm_${id}_${name}_$$
git -C /repo worktree add -q --detach $tree HEAD || exit 3
( cd $tree && git apply $here/seeded/$id-$name/patch.diff ) || { git -C /repo worktree remove --force $tree; echo "patch does not apply"; exit 3; }
VERIF_REPO=$tree $here/check $id --tier quick --no-selfcheck "$@" 2>&1 | grep -E "^violation|^VIOLATION|^runs=|harness" | cut -c1-330
git -C /repo worktree remove --force $tree
