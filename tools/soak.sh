#!/bin/sh
# usage: tools/soak.sh "<ids>" <first-seed> <last-seed> [extra args]   -- soundness soak on the unchanged tree
ids="$1"; a="$2"; b="$3"; shift 3
here="$(cd "$(dirname "$0")/.." && pwd)"
for id in $ids; do
  for s in $(seq "$a" "$b"); do
    out=$(VERIF_NO_EVIDENCE=1 "$here/check" "$id" --seed "$s" --no-selfcheck "$@" 2>&1); rc=$?
    if [ $rc -ne 0 ]; then echo "SOAK-FAIL id=$id seed=$s rc=$rc"; echo "$out" | grep -E "violation|VIOLATION|HARNESS" | head -8; else echo "soak ok id=$id seed=$s $(echo "$out" | tail -1 | cut -c1-90)"; fi
  done
done
